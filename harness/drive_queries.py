"""X04 (extension): the read-only queries of Sequence against Queries.tla."""
import json

from harness import core, project as P
from harness.common import pmap

core.import_scoda()
from scoda.exceptions.sequence_exception import SequenceException  # noqa: E402
from scoda.settings.settings import PPQN  # noqa: E402

QUERIES = ["dur", "reldur", "empty", "consistent", "channel", "times"]
ROUTES = ("rel", "both", "abs", "edited")


def build(rel, route):
    s = P.seq_from_rel(rel)
    if route == "both":
        s.refresh()
    elif route == "abs":
        s = P.seq_from_abs(P.raw_abs(s))
    elif route == "edited":
        # history: queries answered once, then the content changes in place; the answers must follow the content
        s.get_sequence_duration_relation(); s.is_empty(); s.is_channel_consistent()
        try:
            s.get_sequence_duration()
        except Exception:
            pass
        s.add_relative_message(P.mk(P.on(-1, 1, 72, 90)))
        s.add_relative_message(P.mk(P.wait(5, 1)))
        s.add_relative_message(P.mk(P.off(-1, 1, 72)))
    return s


def execute(case):
    idx, rel, types = case
    line = {"rel": [], "dur": -1, "durRaised": "", "relDurTicks": -1, "isEmpty": False, "consistent": False, "channel": -1,
            "channelRaised": "", "types": types, "times": [], "readOnly": True, "after": [], "afterAbs": [], "raised": "",
            "case": {"rel": rel, "types": types, "idx": idx}}
    try:
        seq = build(rel, ROUTES[idx % len(ROUTES)])
        line["rel"] = P.raw_rel(seq)
        order = QUERIES[idx % 6:] + QUERIES[:idx % 6]
        for q in order:
            if q == "dur":
                try:
                    line["dur"] = P._int(seq.get_sequence_duration())
                except Exception as e:
                    line["durRaised"] = type(e).__name__
            elif q == "reldur":
                x = seq.get_sequence_duration_relation() * PPQN
                line["relDurTicks"] = round(x) if abs(x - round(x)) < 1e-9 else -1
            elif q == "empty":
                line["isEmpty"] = seq.is_empty() is True
            elif q == "consistent":
                line["consistent"] = seq.is_channel_consistent() is True
            elif q == "channel":
                try:
                    line["channel"] = P._int(seq.get_sequence_channel())
                except SequenceException:
                    line["channelRaised"] = "SequenceException"
                except Exception as e:
                    line["channelRaised"] = type(e).__name__
            else:
                got = seq.get_message_times_of_type([P.YT[t] for t in types])
                line["times"] = [{"t": P._int(t), "m": P.msg(m)} for t, m in got]
                for _, m in got:
                    for attr, val in (("time", 999), ("note", 1), ("channel", 9)):
                        try:
                            setattr(m, attr, val)
                            line["readOnly"] = False
                        except AttributeError:
                            pass
        line["after"] = P.raw_rel(seq)
        line["afterAbs"] = P.raw_abs(seq)
    except Exception as e:
        line["raised"] = f"{type(e).__name__}: {e}"
    return line


def run(ctx):
    if ctx.replay:
        c = json.load(open(ctx.replay))["observation"]["case"]
        cases = [(c["idx"], c["rel"], c["types"])]
    else:
        ctx.model_check("MC_Queries", "MC_Queries.cfg", env={"VERIF_TIER": ctx.tier}, expect_actions=["ScanWait", "ScanEvent", "Answer"])
        g = ctx.generate("Gen_Queries", "Gen_Queries.cfg", env={"VERIF_TIER": ctx.tier})[0]
        tsets = g["typesets"]
        views = g["views"]
        rng = ctx.rng
        if not ctx.thorough:
            views = [v for v in views if len(v) <= 3] + rng.sample([v for v in views if len(v) > 3], 6000)
        cases = [(i, v, tsets[i % len(tsets)]) for i, v in enumerate(views)]
        for _ in range(30000 if ctx.thorough else 4000):
            chs = rng.choice([[0], [1], [0, 1], [2, 2, 5]])
            rel, t = [], 0
            for _ in range(rng.randint(0, 10)):
                r = rng.random()
                ch = rng.choice(chs)
                if r < .4:
                    p = rng.choice([36, 60, 61, 100])
                    rel += [P.on(-1, ch, p, rng.choice([1, 64, 127])), P.wait(rng.choice([1, 7, 24, 100]), rng.choice(chs)), P.off(-1, ch, p)]
                elif r < .6:
                    rel.append(P.wait(rng.choice([1, 13, 48]), ch))
                elif r < .75:
                    rel.append(P.ts(-1, rng.choice([2, 3, 4, 6]), rng.choice([4, 8]), ch))
                elif r < .85:
                    rel.append(P.ks(-1, rng.choice(["C", "G", "Bb", "F#"]), ch))
                elif r < .93:
                    rel.append(P.pc(-1, rng.randrange(128), ch))
                else:
                    rel.append(P.cc(-1, 64, rng.randrange(128), ch))
            cases.append((len(cases), rel, rng.choice(tsets + [["cc"], ["on", "ts", "pc"]])))
    obs = pmap(execute, cases, chunk=500)
    for i, o in enumerate(obs):
        o["id"] = i
    slim = [{k: v for k, v in o.items() if k != "case"} for o in obs]
    ver = ctx.validate("Trace_Queries", "Trace_Queries.cfg", slim, per_shard_min=300)
    multi = sum(1 for v in ver if v.get("multi"))
    if not ctx.replay and (multi == 0 or multi == len(ver)):
        raise core.MachineryError("vacuity: single-channel and multi-channel inputs not both present")

    def nontrivial(o):
        return json.dumps([o["rel"], o["types"]]) if o["rel"] else None

    samples = [{"rel": [(m["ty"], m["t"], m["ch"]) for m in o["rel"]][:8], "dur": o["dur"], "channel": o["channel"],
                "channelRaised": o["channelRaised"], "times": len(o["times"])} for o in obs[5::max(1, len(obs) // 3)]][:3]
    return ctx.finish(list(zip(obs, ver)),
                      rule="initial states of Queries.tla (every relative list of up to 4, thorough 5, messages over a 10-letter alphabet "
                           "on two channels x 5 type sets; quick: all lists <= 3 and 6000 sampled of length 4) plus seeded random lists, "
                           "built through four routes (relative only, both views, absolute only, queried-then-edited) with the six "
                           "queries in rotating order; non-trivial = distinct non-empty (relative view, type set)",
                      nontrivial=nontrivial, samples=samples, extra_cov={"multi_channel": multi})
