"""C05: quantise.  Initial states of Quantise.tla (score x step list) and seeded random larger sequences are quantised
by the real code; TLC judges (input view, step list, output view)."""
import json

from harness import core, project as P
from harness.common import pmap, build, score_abs, via4, canonical_in, doubled, perturb_returned_defaults

core.import_scoda()

# the default grid that follows from the settings (PPQN 24: quarter..16th notes and their triplets), spelled out
DEFAULT_STEPS = [24, 12, 6, 16, 8, 4]


def execute(case):
    idx, score, steps = case
    line = {"steps": steps, "in": [], "out": [], "outRel": [], "raised": "", "case": {"score": score, "steps": steps}}
    try:
        if idx % 11 == 10:      # the score played twice: one object concatenated with itself (shared Message objects)
            seq = doubled(score)
            line["in"] = P.raw_abs(seq)
        else:
            seq = build(score, via4(idx))
            line["in"] = canonical_in(seq, score)
        if idx % 9 == 8:
            # history: the same object was quantised to the same grid before and its note ends were moved since (cutoff
            # with a replacement length off the grid); the judged call starts from what the object holds now
            seq.quantise(list(steps))
            seq.cutoff(5, 3)
            line["in"] = P.raw_abs(seq)
        perturb_returned_defaults()
        if steps == list(DEFAULT_STEPS) and idx % 2:
            seq.quantise()            # the default grid through the default argument
        else:
            seq.quantise(list(steps))
        line["out"] = P.raw_abs(seq)
        line["outRel"] = P.raw_rel(seq)            # both views are read after the operation: they must agree
    except Exception as e:
        line["raised"] = f"{type(e).__name__}: {e}"
    return line


def random_score(rng, nmax, tmax, chans=(0, 1, 2), pitches=(60, 61, 64)):
    notes, busy = [], {}
    for _ in range(rng.randint(1, nmax)):
        ch, p = rng.choice(chans), rng.choice(pitches)
        s = rng.randint(0, tmax)
        e = s + rng.choice([1, 1, 2, 3, 5, 8, 13, 24])
        if any(not (e <= a or b <= s) for a, b in busy.get((ch, p), [])):
            continue
        busy.setdefault((ch, p), []).append((s, e))
        notes.append({"ch": ch, "p": p, "s": s, "e": e, "v": rng.choice([20, 64, 127])})
    extras = []
    if rng.random() < .5:
        extras.append(P.ts(rng.randint(0, tmax), rng.choice([3, 4, 6]), rng.choice([4, 8])))
    if rng.random() < .3:
        extras.append(P.ks(rng.randint(0, tmax), rng.choice(["C", "G", "Eb"])))
    if rng.random() < .3:
        extras.append(P.cc(rng.randint(0, tmax), 64, 127))
    return {"notes": notes, "extras": extras, "dur": rng.choice([0, tmax + 30])}


def run(ctx):
    if ctx.replay:
        c = json.load(open(ctx.replay))["observation"]["case"]
        cases = [(0, c["score"], c["steps"]), (1, c["score"], c["steps"])]
    else:
        ctx.model_check("MC_Quantise", "MC_Quantise.cfg", env={"VERIF_TIER": ctx.tier},
                        expect_actions=["QOn", "QOff", "QOther", "Sweep", "Sort"], coverage=False, timeout=3000)
        d = core.run_tlc("MC_Quantise", "MC_Quantise_d1.cfg", workers="auto", env={"VERIF_TIER": "quick"})
        if "Invariant MeetsAcceptor is violated" not in d.out:
            raise core.MachineryError("self-test: defect switch KeyedByPitchOnly no longer violates MeetsAcceptor")
        g = ctx.generate("Gen_Quantise", "Gen_Quantise.cfg", env={"VERIF_TIER": ctx.tier})[0]
        cases = []
        for sc in g["scores"]:
            for st in g["steplists"]:
                cases.append((len(cases), sc, st))
        if not ctx.thorough:   # quick: every score with two of the six step lists (rotating), all six for 1/4 of them
            cases = [c for c in cases if (c[0] // 6) % 4 == 0 or (c[0] % 6) in ((c[0] // 6) % 6, (c[0] // 6 + 3) % 6)]
        steplists = g["steplists"] + [list(DEFAULT_STEPS), [2, 3], [12], [5, 7], [1], [12, 8], [24, 16], [4, 6, 4], [8, 3, 8, 3]]
        for _ in range(60000 if ctx.thorough else 8000):
            sc = random_score(ctx.rng, 12 if ctx.rng.random() < .5 else 5, ctx.rng.choice([20, 60, 200]))
            cases.append((len(cases), sc, ctx.rng.choice(steplists)))
    if ctx.fixtures and not ctx.replay:      # slices of the repository's fixtures, as loaded (unquantised)
        from harness import fixtures
        for sc in fixtures.slices("raw"):
            for st in ([list(DEFAULT_STEPS), [12], [4, 6], [3]]):
                cases.append((len(cases), {k: sc[k] for k in ("notes", "extras", "dur")}, st))
    obs = pmap(execute, cases, chunk=400)
    for i, o in enumerate(obs):
        o["id"] = i
    slim = [{k: v for k, v in o.items() if k != "case"} for o in obs]
    ver = ctx.validate("Trace_Quantise", "Trace_Quantise.cfg", slim, per_shard_min=200)
    dropped = sum(1 for v in ver if v.get("dropped", 0) > 0)
    if not ctx.replay and dropped == 0:
        raise core.MachineryError("vacuity: quantisation never dropped a note in this run")

    def nontrivial(o):
        if not any(m["ty"] == "on" for m in o["in"]):
            return None
        return (tuple(o["steps"]), json.dumps(o["in"]))

    samples = [{"steps": o["steps"], "in": [(m["ty"], m["t"], m["ch"], m["p"]) for m in o["in"]],
                "out": [(m["ty"], m["t"], m["ch"], m["p"]) for m in o["out"]]} for o in obs[7::max(1, len(obs) // 3)]][:3]
    return ctx.finish(list(zip(obs, ver)),
                      rule="initial states of Quantise.tla: every well-formed input of <=2 notes over 2 channels x 2 pitches "
                           "(ticks 0..6, thorough 0..9; durations 1..3; optionally one signature event) x 6 step lists "
                           "(quick: a rotating third of the pairs), thorough also all 3-note single-pitch inputs; plus seeded "
                           "random inputs of up to 12 notes on 3 channels, ticks up to 200, 11 step lists incl. the default; "
                           "non-trivial = distinct (step list, input with a note)",
                      nontrivial=nontrivial, samples=samples, extra_cov={"observations_with_dropped_notes": dropped})
