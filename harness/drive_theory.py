"""C20: key and circle-of-fifths tables.  The complete function graphs of the real code are dumped and
validated by TLC against Theory.tla; every length-2 behaviour of the reference system is replayed."""
from harness import core

core.import_scoda()

from scoda.misc.music_theory import Key, CircleOfFifths, MusicMapping  # noqa: E402


def kname(k):
    if k is None:
        return ""
    return k.value if isinstance(k, Key) else f"?{k!r}"


def scale_of(k):
    if not isinstance(k, Key) or k not in MusicMapping.KeyNoteMapping:
        return []
    return [n.value for n in MusicMapping.KeyNoteMapping[k][0]]


def run(ctx):
    ctx.model_check("MC_Theory", "MC_Theory.cfg", expect_actions=["Transpose"])
    paths = ctx.generate("Gen_Theory", "Gen_Theory.cfg")
    obs = []
    nid = 0

    def add(o):
        nonlocal nid
        o["id"] = nid
        nid += 1
        obs.append(o)

    rng = range(-100, 101) if ctx.thorough else range(-25, 26)
    for k in Key:
        add({"kind": "scale", "key": k.value, "scale": scale_of(k), "grp": "t"})
        for i in rng:
            try:
                out = Key.transpose_key(k, i)
                err = ""
            except Exception as e:  # an exception is "no key returned"
                out, err = None, type(e).__name__
            add({"kind": "tk", "key": k.value, "i": i, "out": kname(out), "scaleIn": scale_of(k),
                 "scaleOut": scale_of(out), "err": err, "grp": "t"})
    for a in range(128):
        row = []
        for b in range(128):
            try:
                d = CircleOfFifths.get_distance(a, b)
                land = CircleOfFifths.from_distance(a, d)
                pos = CircleOfFifths.get_position(b)
            except Exception:
                d, land, pos = -99, -99, -99
            row.append({"b": b, "pos": pos, "dist": d, "land": land})
        add({"kind": "cof", "a": a, "row": row, "grp": "t"})
    # replay of the generated behaviours (paths of the reference transition system)
    for pi, p in enumerate(paths):
        try:
            cur = Key(p["start"])
        except Exception:
            continue
        first = True
        for i in p["steps"]:
            try:
                nxt = Key.transpose_key(cur, i) if cur is not None else None
            except Exception:
                nxt = None
            add({"kind": "path", "first": first, "start": p["start"], "i": i, "out": kname(nxt), "grp": f"p{pi}"})
            first = False
            cur = nxt
    ver = ctx.validate("Trace_Theory", "Trace_Theory.cfg", obs, group="grp")
    res = list(zip(obs, ver))

    def nontrivial(o):
        if o["kind"] == "tk":
            return ("tk", o["key"], o["i"])
        if o["kind"] == "cof":
            return ("cof", o["a"])
        if o["kind"] == "path" and not o["first"]:
            return ("path", o["grp"])
        return None

    def fkey(o, v):
        return None

    samples = [o for o in obs if o["kind"] in ("tk", "path")][:3]
    return ctx.finish(res, rule="complete function graphs of transpose_key (15 keys x intervals), KeyNoteMapping, "
                                "circle of fifths on 128x128 pitch pairs (one line per row), plus every length-2 "
                                "behaviour of the reference system replayed; non-trivial = distinct (key, interval), "
                                "distinct cof row, distinct 2-step path", nontrivial=nontrivial, samples=samples,
                      finding_key=fkey, exhaustive=True)
