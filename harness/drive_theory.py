"""C20: key and circle-of-fifths tables.  The complete function graphs of the real code are dumped and
validated by TLC against Theory.tla; every length-2 behaviour of the reference system is replayed."""
from harness import core

core.import_scoda()

from scoda.misc.music_theory import Key, CircleOfFifths, MusicMapping  # noqa: E402


def kname(k):
    if k is None:
        return ""
    return k.value if isinstance(k, Key) else f"?{k!r}"


def scale_of(k):
    if not isinstance(k, Key) or k not in MusicMapping.KeyNoteMapping:
        return []
    return [n.value for n in MusicMapping.KeyNoteMapping[k][0]]


def run(ctx):
    ctx.model_check("MC_Theory", "MC_Theory.cfg", expect_actions=["Transpose"])
    paths = ctx.generate("Gen_Theory", "Gen_Theory.cfg")
    obs = []
    nid = 0

    def add(o):
        nonlocal nid
        o["id"] = nid
        nid += 1
        obs.append(o)

    rng = range(-100, 101) if ctx.thorough else range(-25, 26)
    for k in Key:
        add({"kind": "scale", "key": k.value, "scale": scale_of(k), "grp": "t"})
        for i in rng:
            try:
                out = Key.transpose_key(k, i)
                err = ""
            except Exception as e:  # an exception is "no key returned"
                out, err = None, type(e).__name__
            add({"kind": "tk", "key": k.value, "i": i, "out": kname(out), "scaleIn": scale_of(k),
                 "scaleOut": scale_of(out), "err": err, "grp": "t"})
    import numpy as np
    for a in range(128):
        row = []
        # pitches as plain ints and, for every fourth row, as numpy integer scalars (what a pitch array hands out)
        conv = [int, np.uint8, np.int8, np.int64][a % 4] if a % 4 else int
        for b in range(128):
            try:
                d = CircleOfFifths.get_distance(conv(a), conv(b))
                land = CircleOfFifths.from_distance(conv(a), d)
                pos = CircleOfFifths.get_position(conv(b))
                d, land, pos = int(d), int(land), int(pos)
            except Exception:
                d, land, pos = -99, -99, -99
            row.append({"b": b, "pos": pos, "dist": d, "land": land})
        add({"kind": "cof", "a": a, "row": row, "grp": "t"})
    # the same law through the entry points that carry keys: bars (attribute and messages, with and without notes) and
    # sequences (key-signature messages read through both views, whichever view was current when transposing)
    from harness import project as P
    from scoda.elements.bar import Bar
    from scoda.sequences.sequence import Sequence
    ivs = range(-25, 26) if ctx.thorough else (-13, -12, -7, -5, -2, -1, 0, 1, 2, 3, 5, 6, 7, 11, 12, 14)
    for k in Key:
        for i in ivs:
            outs, err = [], ""
            try:
                for notes in ([], [(0, 60, 0, 12, 80)]):
                    b = Bar(P.seq_from_abs(P.notes_to_abs(notes, [], dur=96 if notes else None)) if notes else Sequence(), 4, 4, k)
                    b.transpose(i)
                    outs.append([k.value, kname(b.key_signature)])
                    outs += [[k.value, m["k"]] for m in P.raw_rel(b.sequence) if m["ty"] == "ks"]
                for route in ("abs", "rel", "both"):
                    # a modulation: the second key is the first one moved by the interval of the call (a key the
                    # transposition itself produces), the third repeats the first
                    k2 = Key.transpose_key(k, i)
                    src = [k.value, kname(k2), k.value]
                    ms = P.notes_to_abs([(0, 60, 0, 12, 80)], [P.ks(0, src[0]), P.ks(6, src[1]), P.ks(9, src[2])])
                    s = P.seq_from_abs(ms) if route != "rel" else P.seq_from_rel(P.abs_to_rel(ms))
                    if route == "both":
                        s.refresh()
                    s.transpose(i)
                    for view in (P.raw_abs(s), P.raw_rel(s)):
                        got = [m["k"] for m in view if m["ty"] == "ks"]
                        got += ["missing"] * (3 - len(got))
                        outs += [[a, b_] for a, b_ in zip(src, got)]
            except Exception as e:
                err = type(e).__name__
            add({"kind": "entry", "key": k.value, "i": i, "outs": outs, "err": err, "grp": "t"})
    # replay of the generated behaviours (paths of the reference transition system)
    for pi, p in enumerate(paths):
        try:
            cur = Key(p["start"])
        except Exception:
            continue
        first = True
        for i in p["steps"]:
            try:
                nxt = Key.transpose_key(cur, i) if cur is not None else None
            except Exception:
                nxt = None
            add({"kind": "path", "first": first, "start": p["start"], "i": i, "out": kname(nxt), "grp": f"p{pi}"})
            first = False
            cur = nxt
    ver = ctx.validate("Trace_Theory", "Trace_Theory.cfg", obs, group="grp")
    res = list(zip(obs, ver))

    def nontrivial(o):
        if o["kind"] == "tk":
            return ("tk", o["key"], o["i"])
        if o["kind"] == "cof":
            return ("cof", o["a"])
        if o["kind"] == "entry":
            return ("entry", o["key"], o["i"])
        if o["kind"] == "path" and not o["first"]:
            return ("path", o["grp"])
        return None

    def fkey(o, v):
        return None

    samples = [o for o in obs if o["kind"] in ("tk", "path")][:3]
    return ctx.finish(res, rule="complete function graphs of transpose_key (15 keys x intervals), KeyNoteMapping, "
                                "circle of fifths on 128x128 pitch pairs (one line per row), plus every length-2 "
                                "behaviour of the reference system replayed; non-trivial = distinct (key, interval), "
                                "distinct cof row, distinct 2-step path", nontrivial=nontrivial, samples=samples,
                      finding_key=fkey, exhaustive=True)
