"""C01 C02 C03 C19: the note-like tokeniser.  Initial states of TokeniserSys.tla (configuration x piece x partition, or
configuration x arbitrary token stream) written by TLC, plus seeded random pieces over the configuration lattice, are
run through the real tokeniser; TLC (Trace_Tokeniser) judges each observation."""
import itertools
import json

from harness import core, project as P
from harness.common import pmap, perturb_returned_defaults

core.import_scoda()
from scoda.elements.bar import Bar  # noqa: E402
from scoda.enumerations.tokenisation_prefixes import TokenisationPrefixes as TP  # noqa: E402
from scoda.sequences.sequence import Sequence  # noqa: E402
from scoda.tokenisation.notelike_tokenisation import MultiTrackLargeVocabularyNotelikeTokeniser as Tokeniser  # noqa: E402

DEFAULT_STEPS = [2, 3, 4, 6, 8, 12, 16, 24]


# ------------------------------------------------------------------ configuration / pieces

def make_tokeniser(c, defaults=False):
    """defaults=True: where the configuration equals the library defaults, rely on the default arguments"""
    steps = None if defaults and sorted(c["steps"]) == DEFAULT_STEPS else sorted(c["steps"])
    values = None if defaults and sorted(c["values"]) == [4, 6, 8, 9, 12, 16, 18, 24, 36] else sorted(c["values"])
    return Tokeniser(ppqn=None if defaults and c["ppqn"] == 24 else c["ppqn"], num_tracks=c["tracks"], pitch_range=(c["pitLo"], c["pitHi"]),
                     step_sizes=steps, note_values=values, velocity_bins=c["nbins"],
                     time_signature_range=(c["tsLo"], c["tsHi"]), flag_running_values=c["running"],
                     flag_fuse_track=c["fuseTrk"], flag_fuse_value=c["fuseVal"], flag_fuse_velocity=c["fuseVel"])


_TOKS = {}


def shared_tokeniser(c, idx, defaults=False):
    """One tokeniser object serves many pieces: in every third case the object built for this configuration earlier in
    the same worker process is used again (a tokeniser carries no state of its own between calls)."""
    if idx % 3 != 2:
        return make_tokeniser(c, defaults)
    key = (json.dumps(c, sort_keys=True), defaults)
    if key not in _TOKS:
        if len(_TOKS) > 200:
            _TOKS.clear()
        _TOKS[key] = make_tokeniser(c, defaults)
    return _TOKS[key]


def observed_cfg(c, tok):
    """The configuration as the real object reports it (bins as the object holds them, made integral for TLC)."""
    o = dict(c)
    kinds = set()
    o["bins"] = [P._int(b, kinds) for b in tok.velocity_bins]
    o["binKinds"] = sorted(kinds)
    o["steps"] = list(tok.step_sizes)
    o["values"] = list(tok.note_values)
    return o


def piece_sequences(piece, ch=0):
    """One real Sequence per track; signatures on track 0; end mark when the piece has one."""
    seqs = []
    for i, notes in enumerate(piece["tracks"]):
        nt = [(ch, n["p"], n["s"], n["e"], n["v"]) for n in notes]
        extra = [P.ts(s[0], s[1], s[2]) for s in piece["sigs"] + piece.get("midsigs", [])] if i == 0 else []
        dur = piece["end"] if piece["cap"] else None
        ms = P.notes_to_abs(nt, extra, dur)
        seqs.append(P.seq_from_abs(ms) if (i + len(notes)) % 2 == 0 else P.seq_from_rel(P.abs_to_rel(ms)))
    return seqs


PREFIX = {TP.PAD.value: "pad", TP.START.value: "sta", TP.STOP.value: "sto", TP.BAR.value: "bar", TP.REST.value: "rest",
          TP.TIME_SIGNATURE.value: "tsg", TP.TRACK.value: "trk", TP.VALUE.value: "val", TP.VELOCITY.value: "vel",
          TP.PITCH.value: "pit"}


def atok(k, a=-1, trk=-1, pit=-1, val=-1, vel=-1):
    return {"k": k, "a": a, "trk": trk, "pit": pit, "val": val, "vel": vel}


def parse_token(s):
    """Token string -> abstract token of the specification; k = 'bad' when a part does not parse as the format says."""
    try:
        parts = [p.split("_") for p in s.split("-")]
        kinds = [PREFIX.get(p[0]) for p in parts]
        if None in kinds:
            return atok("bad")
        ints = lambda x: int(x) if x.lstrip("-").isdigit() else None
        if len(parts) == 1 and kinds[0] in ("pad", "sta", "sto", "bar") and len(parts[0]) == 1:
            return atok(kinds[0])
        if len(parts) == 1 and kinds[0] in ("rest", "trk", "val", "vel") and len(parts[0]) == 2 and ints(parts[0][1]) is not None:
            return atok(kinds[0], ints(parts[0][1]))
        if len(parts) == 1 and kinds[0] == "tsg" and len(parts[0]) == 3 and ints(parts[0][1]) is not None and parts[0][2] == "08":
            return atok("tsg", ints(parts[0][1]))
        if "pit" in kinds and all(k in ("trk", "pit", "val", "vel") for k in kinds) and len(set(kinds)) == len(kinds):
            t = atok("note")
            for p, k in zip(parts, kinds):
                if len(p) != 2 or ints(p[1]) is None:
                    return atok("bad")
                t[k] = ints(p[1])
            return t
        return atok("bad")
    except Exception:
        return atok("bad")


def project_out(seqs):
    """Detokenised sequences -> [tracks (notes), marks (bar marks), sigs (from the first sequence), durs]."""
    tracks, marks, durs, sigs = [], [], [], []
    wf = True
    for i, s in enumerate(seqs):
        ab = P.raw_abs(s)
        notes, ok = P.notes_of_abs(ab)
        wf = wf and ok
        tracks.append([{"p": n["p"], "s": n["s"], "e": n["e"], "v": n["v"]} for n in notes])
        marks.append(sorted(set(m["t"] for m in ab if m["ty"] == "int")))
        durs.append(max([m["t"] for m in ab], default=0))
        if i == 0:
            sigs = [[m["t"], m["n"], m["d"]] for m in ab if m["ty"] == "ts"]
        elif any(m["ty"] == "ts" for m in ab):
            wf = False
    return {"tracks": tracks, "marks": marks, "sigs": sigs, "durs": durs, "wellFormed": wf}


EMPTY_OUT = {"tracks": [], "marks": [], "sigs": [], "durs": [], "wellFormed": True}


# ------------------------------------------------------------------ C01

def roundtrip(case):
    idx, c, piece = case
    line = {"kind": "roundtrip", "cfg": c, "piece": piece, "tokRaised": "", "detokRaised": "", "allKeys": False,
            "codecIdentity": False, "out": EMPTY_OUT, "parsed": [], "parsedOk": False, "tokens": [],
            "case": {"cfg": c, "piece": piece}}
    try:
        tok = shared_tokeniser(c, idx, defaults=(idx % 2 == 1))
        line["cfg"] = observed_cfg(c, tok)
        perturb_returned_defaults()      # a caller edits lists returned by the default helpers; this tokeniser must not care
    except Exception as e:
        line["tokRaised"] = f"constructor {type(e).__name__}: {e}"
        return line
    try:
        tokens = tok.tokenise(piece_sequences(piece))
    except Exception as e:
        line["tokRaised"] = f"{type(e).__name__}: {e}"
        return line
    line["tokens"] = list(tokens)
    line["parsed"] = [parse_token(t) for t in tokens]
    line["parsedOk"] = all(t["k"] != "bad" for t in line["parsed"])
    line["allKeys"] = all(t in tok.dictionary for t in tokens)
    if not line["allKeys"]:
        return line
    try:
        dec = tok.decode(tok.encode(tokens))
        line["codecIdentity"] = list(dec) == list(tokens)
    except Exception as e:
        line["codecIdentity"] = False
        return line
    try:
        out = tok.detokenise(dec)
        line["out"] = project_out(out)
    except Exception as e:
        line["detokRaised"] = f"{type(e).__name__}: {e}"
    return line


F_DUR = "C01.duration.clock-on-barline"


def c01_finding(o, v):
    """Shape: the tokeniser's clock stops on a bar line (the last tokenised event - note onset, signature, end mark -
    sits on one, or the bar containing it was closed) while a note is still sounding past that bar line: no further
    rests are emitted, so the output ends with that note-off instead of the end of its bar."""
    if o.get("kind") != "roundtrip" or v["fails"] != ["duration-rounded-up"]:
        return None
    pc = o["piece"]
    ticks = [n["s"] for tr in pc["tracks"] for n in tr] + [s[0] for s in pc["sigs"]] + ([pc["end"]] if pc["cap"] else [])
    last = max(ticks, default=0)
    # bar lines per the piece's own signatures (harness-side recomputation only for the shape test)
    t, sig, bl = 0, (4, 4), [0]
    sigs = sorted(pc["sigs"])
    while t <= pc["end"] + 400 and len(bl) < 80:
        for s in sigs:
            if s[0] <= t:
                sig = (s[1], s[2])
        t += o["cfg"]["ppqn"] * 4 * sig[0] // sig[1]
        bl.append(t)
    stop = last if last in bl else min(b for b in bl if b > last)
    sounding_past = max([n["e"] for tr in pc["tracks"] for n in tr], default=0)
    if sounding_past > stop and pc["end"] == sounding_past:
        return F_DUR
    return None


def random_cfg(rng, small=True):
    lo = rng.choice([0, 21, 48, 60])
    c = {"ppqn": rng.choice([24, 24, 24, 48, 12, 96]), "tracks": rng.randint(1, 4), "pitLo": lo, "pitHi": rng.choice([lo + 2, 72, 108]),
         "steps": DEFAULT_STEPS if rng.random() < .7 else [2, 4, 8, 12, 24],
         "values": rng.choice([[4, 6, 8, 9, 12, 16, 18, 24, 36], [6, 12, 24], [12, 24, 48, 96], [2, 4, 8]]),
         "nbins": rng.choice([1, 2, 3, 4, 8, 16, 127, rng.randint(1, 128), rng.randint(1, 128)]), "tsLo": 2, "tsHi": 16,
         "running": rng.random() < .5, "fuseTrk": rng.random() < .5, "fuseVal": rng.random() < .5,
         "fuseVel": rng.random() < .5}
    c["pitHi"] = max(c["pitHi"], c["pitLo"] + 1)
    if rng.random() < .12:      # a fine resolution: step sizes and note values of three and four digits
        c.update(ppqn=480, steps=[60, 120, 240, 480], values=rng.choice([[120, 240, 480, 960, 1920], [60, 480, 1440]]))
    return c


def random_piece(rng, c):
    unit = min(c["steps"])          # every tokenised event sits on the grid of the smallest step
    sigs, t = [], 0
    nb = rng.randint(1, 6)
    sig = (4, 4)
    bars = []
    for b in range(nb):
        if rng.random() < .35:
            sig = rng.choice([(4, 4), (3, 4), (2, 4), (6, 8), (2, 2), (5, 4), (7, 8), (3, 8), (12, 8), (2, 8), (3, 8), (1, 4),
                              (9, 8), (5, 8), (11, 8), (7, 4), (3, 2), (2, 1), (15, 8), (4, 2), (13, 8),
                              (6, 16), (12, 16), (4, 16), (10, 16), (14, 16), (8, 32), (16, 32)])
            sigs.append([t, sig[0], sig[1]])
        ln = c["ppqn"] * 4 * sig[0] // sig[1]
        bars.append((t, t + ln))
        t += ln
    end = t
    tracks = []
    for i in range(c["tracks"]):
        notes, busy = [], {}
        if rng.random() < .15:
            tracks.append([])
            continue
        for _ in range(rng.randint(0, 8)):
            s = unit * rng.randint(0, max(0, end // unit - 1))
            val = rng.choice(c["values"])
            if rng.random() < .25:          # a note starting on a bar line; when a value equals the bar length it fills the bar
                b0, b1 = rng.choice(bars)
                s = b0
                if (b1 - b0) in c["values"]:
                    val = b1 - b0
            # a few neighbouring pitches (so that repetitions of one pitch occur) or any pitch class of the range
            p = rng.randint(c["pitLo"], min(c["pitHi"], c["pitLo"] + 3)) if rng.random() < .6 else \
                rng.randint(c["pitLo"], min(c["pitHi"], c["pitLo"] + 14))
            if any(not (s + val <= a or b <= s) for a, b in busy.get(p, [])):
                continue
            busy.setdefault(p, []).append((s, s + val))
            notes.append({"p": p, "s": s, "e": s + val, "v": rng.randint(1, 127)})
        tracks.append(notes)
    shape = rng.random()
    last = max([n["e"] for tr in tracks for n in tr], default=0)
    even = lambda x: -(-x // unit) * unit       # an end mark sits on the step grid like every other tokenised event
    if shape < .5 or last == 0:
        pc = {"tracks": tracks, "sigs": sigs, "end": even(max(end, last)), "cap": True, "bars": last <= end}
        if last > end:      # notes run past the last bar: the piece ends with its last note-off, there is no end mark
            pc = {"tracks": tracks, "sigs": sigs, "end": last, "cap": False, "bars": False}
    elif shape < .75:
        pc = {"tracks": tracks, "sigs": [s for s in sigs if s[0] < last], "end": last, "cap": False, "bars": False}
    else:
        pc = {"tracks": tracks, "sigs": [s for s in sigs if s[0] < last + 5 * unit], "end": even(last + 5 * unit), "cap": True, "bars": False}
    return pc


def fixture_pieces(rng):
    """Quantised slices of the repository's fixtures as single-track pieces (default grids, 4/4, whole bars)."""
    from harness import fixtures
    out = []
    for sc in fixtures.slices("quantised"):
        notes = [{"p": n["p"], "s": n["s"], "e": n["e"], "v": n["v"]} for n in sc["notes"] if 21 <= n["p"] <= 108]
        # one channel per track: keep the notes of the most frequent channel, drop same-pitch overlaps
        busy, keep = {}, []
        for n in sorted(notes, key=lambda x: x["s"]):
            if busy.get(n["p"], -1) > n["s"] or (n["e"] - n["s"]) not in (4, 6, 8, 9, 12, 16, 18, 24, 36) or n["s"] % 2:
                continue
            busy[n["p"]] = n["e"]
            keep.append(n)
        if not keep:
            continue
        end = -(-max(n["e"] for n in keep) // 96) * 96
        c = random_cfg(rng)
        c.update(ppqn=24, tracks=1, pitLo=21, pitHi=108, steps=DEFAULT_STEPS, values=[4, 6, 8, 9, 12, 16, 18, 24, 36])
        out.append((c, {"tracks": [keep], "sigs": [], "end": end, "cap": True, "bars": True}))
    return out


def with_nbins(c):
    c = dict(c)
    c["nbins"] = len(c["bins"])
    return c


def run_c01(ctx, g):
    rng = ctx.rng
    if ctx.replay:
        c = json.load(open(ctx.replay))["observation"]["case"]
        cases = [(0, c["cfg"], c["piece"])]
    else:
        cfgs = [with_nbins(c) for c in g["configs"]]
        pieces = g["pieces"]
        cases = []
        for c in cfgs:
            ps = pieces if ctx.thorough else rng.sample(pieces, min(len(pieces), 1800))
            for pc in ps:
                cases.append((len(cases), c, pc))
        flagsets = list(itertools.product([False, True], repeat=4))
        for k in range(30000 if ctx.thorough else 4000):
            c = random_cfg(rng)
            f = flagsets[k % 16]
            c["running"], c["fuseTrk"], c["fuseVal"], c["fuseVel"] = f
            cases.append((len(cases), c, random_piece(rng, c)))
    if ctx.fixtures and not ctx.replay:
        cases += [(len(cases) + i, c, pc) for i, (c, pc) in enumerate(fixture_pieces(rng))]
    obs = pmap(roundtrip, cases, chunk=200)
    for i, o in enumerate(obs):
        o["id"] = i
    slim = [{k: v for k, v in o.items() if k not in ("case", "tokens")} for o in obs]
    ver = ctx.validate("Trace_Tokeniser", "Trace_Tokeniser.cfg", slim, per_shard_min=100)
    same = sum(1 for v in ver if v.get("sameAsRef"))

    def nontrivial(o):
        if not any(o["piece"]["tracks"]):
            return None
        return (json.dumps(o["case"]["cfg"], sort_keys=True), json.dumps(o["piece"], sort_keys=True))

    samples = [{"cfg": {k: o["cfg"][k] for k in ("tracks", "nbins", "running", "fuseTrk", "fuseVal", "fuseVel")},
                "piece": o["piece"], "tokens": o["tokens"][:14]} for o in obs[7::max(1, len(obs) // 3)]][:3]
    return ctx.finish(list(zip(obs, ver)),
                      rule="initial states of TokeniserSys.tla (configurations x pieces: <=2 notes on 2 tracks, 4 signature "
                           "plans, three end shapes: whole bars / ends with a note-off / trailing rest) + seeded random pieces "
                           "(1-4 tracks, 1-6 bars with signature changes, notes across bar lines, empty and uncapped tracks) "
                           "over random configurations cycling through all 16 flag sets x velocity_bins in "
                           "{1,2,3,4,8,16,127} x pitch ranges x note-value and step sets; non-trivial = distinct "
                           "(configuration, piece with a note)",
                      nontrivial=nontrivial, samples=samples, finding_key=c01_finding,
                      extra_cov={"token_stream_equal_to_reference_automaton": same})


# ------------------------------------------------------------------ C02

def vocab_dump(case):
    idx, c = case
    line = {"kind": "vocab", "cfg": c, "entries": [], "size": -1, "inverseSize": -1, "raised": "", "case": {"cfg": c}}
    try:
        tok = make_tokeniser(c)
        line["cfg"] = observed_cfg(c, tok)
        if idx % 2:
            # history: the tokeniser was asked about tokens / ids outside its vocabulary before (it refuses them);
            # the vocabulary is what it was
            for foreign in (["val_24"], ["trk_01-pit_060-vel_127"], ["no-such-token"], ["rst_999", "pad"]):
                try:
                    tok.encode(foreign)
                except Exception:
                    pass
            for ids in ([10 ** 7], [-5 - tok.dictionary_size]):
                try:
                    tok.decode(ids)
                except Exception:
                    pass
        line["size"] = tok.dictionary_size
        line["inverseSize"] = len(tok.inverse_dictionary)
        ents = []
        for key, i in tok.dictionary.items():
            try:
                de = tok.decode(tok.encode([key])) == [key]
            except Exception:
                de = False
            try:
                ed = isinstance(i, int) and tok.encode(tok.decode([i])) == [i]
            except Exception:
                ed = False
            try:
                tok.detokenise([key])
                dk = True
            except Exception:
                dk = False
            ents.append({"key": key, "id": i if isinstance(i, int) else -1, "decEnc": de, "encDec": ed, "detokOk": dk})
        line["entries"] = ents
    except Exception as e:
        line["raised"] = f"{type(e).__name__}: {e}"
        line["entries"] = [{"key": "", "id": -1, "decEnc": False, "encDec": False, "detokOk": False}]
    return line


def witness_piece(c, want):
    """A minimal piece that forces the abstract token `want` to be emitted."""
    k = want["k"]
    note = lambda trk, p, val, vel, s=0: {"tracks": [[{"p": p, "s": s, "e": s + val, "v": vel}] if i == trk else []
                                                         for i in range(c["tracks"])], "sigs": [], "end": 96, "cap": True, "bars": True}
    p0, v0 = c["pitLo"], sorted(c["values"])[0]
    if k == "rest":       # two gaps of that size keep the remainder of the bar decomposable for odd steps
        a = want["a"]
        return {"tracks": [[{"p": p0, "s": a, "e": a + v0, "v": 100}, {"p": p0 + 1, "s": 2 * a, "e": 2 * a + v0, "v": 100}]
                           if i == 0 else [] for i in range(c["tracks"])], "sigs": [], "end": 96, "cap": True, "bars": True}
    if k == "bar":
        return {"tracks": [[] for _ in range(c["tracks"])], "sigs": [], "end": 96, "cap": True, "bars": True}
    if k == "tsg":
        return {"tracks": [[] for _ in range(c["tracks"])], "sigs": [[0, want["a"], 8]], "end": 12 * want["a"], "cap": True, "bars": True}
    if k == "trk":
        return note(want["a"], p0, v0, 100)
    if k == "val":
        return note(0, p0, want["a"], 100)
    if k == "vel":
        return note(0, p0, v0, want["a"])
    if k == "note":
        return note(max(want["trk"], 0), want["pit"], want["val"] if want["val"] != -1 else v0,
                    want["vel"] if want["vel"] != -1 else 100)
    return None


def witness(case):
    idx, c, want = case
    line = {"kind": "witness", "cfg": c, "want": want, "tokRaised": "", "allKeys": False, "codecIdentity": False, "parsed": [],
            "tokens": [], "case": {"cfg": c, "want": want}}
    pc = witness_piece(c, want)
    try:
        tok = make_tokeniser(c)
        tokens = tok.tokenise(piece_sequences(pc))
        line["tokens"] = list(tokens)
        line["parsed"] = [parse_token(t) for t in tokens]
        line["allKeys"] = all(t in tok.dictionary for t in tokens)
        try:
            line["codecIdentity"] = tok.decode(tok.encode(tokens)) == list(tokens)
        except Exception:
            line["codecIdentity"] = False
    except Exception as e:
        line["tokRaised"] = f"{type(e).__name__}: {e}"
    return line


def closure(case):
    """Any input: tokenise either rejects it with its own error or emits vocabulary tokens only."""
    idx, c, piece, tag = case
    line = {"kind": "closure", "cfg": c, "tag": tag, "tokRaised": "", "detokRaised": "", "allKeys": False, "codecIdentity": False,
            "tokens": [], "case": {"cfg": c, "piece": piece, "tag": tag}}
    try:
        tok = shared_tokeniser(c, idx, defaults=(idx % 2 == 1))
        perturb_returned_defaults()
        seqs = piece_sequences(piece)
    except Exception as e:
        line["tokRaised"] = f"harness {type(e).__name__}: {e}"
        return line
    try:
        tokens = tok.tokenise(seqs)
    except Exception as e:
        line["tokRaised"] = type(e).__name__
        line["detail"] = str(e)[:80]
        return line
    line["tokens"] = list(tokens)[:40]
    bad = [t for t in tokens if t not in tok.dictionary]
    line["allKeys"] = not bad
    line["notKeys"] = bad[:5]
    if bad:
        return line
    try:
        dec = tok.decode(tok.encode(tokens))
        line["codecIdentity"] = list(dec) == list(tokens)
        try:
            tok.detokenise(dec)
        except Exception as e:
            line["detokRaised"] = f"{type(e).__name__}: {e}"
    except Exception:
        line["codecIdentity"] = False
    return line


def closure_cases(ctx):
    base = {"ppqn": 24, "tracks": 1, "pitLo": 60, "pitHi": 72, "steps": DEFAULT_STEPS, "values": [6, 12, 24], "nbins": 1,
            "tsLo": 2, "tsHi": 16, "running": True, "fuseTrk": True, "fuseVal": True, "fuseVel": True}
    cases = []
    one = lambda p=60, v=100, val=12, s=0: [[{"p": p, "s": s, "e": s + val, "v": v}]]
    # every time signature n/d: accepted or rejected, never a token outside the vocabulary
    for n in range(1, 25):
        for d in (1, 2, 4, 8, 16, 32):
            for rng_ts in ((2, 16), (4, 12)):
                c = dict(base, tsLo=rng_ts[0], tsHi=rng_ts[1])
                cases.append((len(cases), c, {"tracks": one(), "sigs": [[0, n, d]], "end": 24, "cap": True, "bars": False}, f"ts {n}/{d}"))
    # every velocity under many bin counts, fused and unfused
    bins = list(range(1, 129)) if ctx.thorough else [1, 2, 3, 5, 6, 8, 10, 16, 24, 48, 50, 64, 100, 127, 128]
    for nb in bins:
        for fuse in (True, False):
            for run in (True, False):
                c = dict(base, nbins=nb, fuseVel=fuse, running=run)
                notes = [{"p": 60 + (v % 2), "s": 24 * (v - 1), "e": 24 * (v - 1) + 12, "v": v} for v in range(1, 128)]
                cases.append((len(cases), c, {"tracks": [notes], "sigs": [], "end": 24 * 127, "cap": True, "bars": False}, f"velocities bins={nb}"))
    # pitches around the range, values in and out of the set, track count mismatch
    for p in (58, 59, 60, 61, 71, 72, 73, 74):
        cases.append((len(cases), base, {"tracks": one(p=p), "sigs": [], "end": 24, "cap": True, "bars": False}, f"pitch {p}"))
    for val in (1, 2, 3, 4, 5, 6, 9, 12, 18, 24, 36, 48, 96, 100):
        for fuse in (True, False):
            cases.append((len(cases), dict(base, fuseVal=fuse), {"tracks": one(val=val), "sigs": [], "end": 96, "cap": True, "bars": False}, f"value {val}"))
            # the default note values contain durations that are not rest step sizes (9, 18, 36)
            dv = dict(base, fuseVal=fuse, values=[4, 6, 8, 9, 12, 16, 18, 24, 36], pitLo=0, pitHi=12)
            cases.append((len(cases), dv, {"tracks": one(p=(val % 13), val=val), "sigs": [], "end": 96, "cap": True, "bars": False}, f"default values {val}"))
    for nt in (1, 2, 3):
        for fuse in (True, False):
            c = dict(base, tracks=nt, fuseTrk=fuse)
            for given in (1, 2, 3):
                cases.append((len(cases), c, {"tracks": [one(p=60 + i)[0] for i in range(given)], "sigs": [], "end": 24, "cap": True,
                                              "bars": False}, f"tracks {given} of {nt}"))
    # onsets off and on the step grid
    for s0 in range(0, 14):
        cases.append((len(cases), base, {"tracks": one(s=s0), "sigs": [], "end": 96, "cap": True, "bars": False}, f"onset {s0}"))
    return cases


def run_c02(ctx, g):
    rng = ctx.rng
    if ctx.replay:
        o = json.load(open(ctx.replay))["observation"]
        if o["kind"] == "vocab":
            obs = [vocab_dump((0, o["case"]["cfg"]))]
        elif o["kind"] == "closure":
            obs = [closure((0, o["case"]["cfg"], o["case"]["piece"], o["case"]["tag"]))]
        else:
            obs = [witness((0, o["case"]["cfg"], o["case"]["want"]))]
    else:
        lattice = []
        for flags in itertools.product([False, True], repeat=4):
            for nb in ([1, 2, 3, 4, 8] if not ctx.thorough else [1, 2, 3, 4, 5, 8, 16, 127]):
                for tr in ([1, 2] if not ctx.thorough else [1, 2, 3]):
                    for pr in ([(60, 62)] if not ctx.thorough else [(60, 62), (21, 108)]):
                        for vs in ([[6, 12, 24]] if not ctx.thorough else [[6, 12, 24], [4, 6, 8, 9, 12, 16, 18, 24, 36]]):
                            lattice.append({"ppqn": 24, "tracks": tr, "pitLo": pr[0], "pitHi": pr[1], "steps": DEFAULT_STEPS,
                                            "values": vs, "nbins": nb, "tsLo": 2, "tsHi": 16, "running": flags[0],
                                            "fuseTrk": flags[1], "fuseVal": flags[2], "fuseVel": flags[3]})
        for nb in range(1, 129):
            for fv in (True, False):
                lattice.append({"ppqn": 24, "tracks": 1, "pitLo": 60, "pitHi": 61, "steps": DEFAULT_STEPS, "values": [12],
                                "nbins": nb, "tsLo": 2, "tsHi": 16, "running": True, "fuseTrk": True, "fuseVal": True, "fuseVel": fv})
        if not ctx.thorough:
            lattice.append(dict(lattice[-1], pitLo=21, pitHi=108, values=[4, 6, 8, 9, 12, 16, 18, 24, 36]))
            lattice.append(dict(lattice[0], pitLo=21, pitHi=108, values=[4, 6, 8, 9, 12, 16, 18, 24, 36], nbins=8))
        obs = pmap(vocab_dump, [(i, c) for i, c in enumerate(lattice)], chunk=4)
        wcases = []
        for c, voc in zip(g["configs"], g["vocab"]):
            c = with_nbins(c)
            for want in voc:
                if want["k"] in ("pad", "sta", "sto"):
                    continue
                wcases.append((len(wcases), c, want))
        obs += pmap(witness, wcases, chunk=100)
        obs += pmap(closure, closure_cases(ctx), chunk=50)
    for i, o in enumerate(obs):
        o["id"] = i
    slim = []
    for o in obs:
        s = {k: v for k, v in o.items() if k not in ("case", "tokens", "notKeys", "detail")}
        if o["kind"] == "vocab":
            s["entries"] = [{k: v for k, v in e.items() if k != "key"} for e in o["entries"]]
        slim.append(s)
    ver = ctx.validate("Trace_Tokeniser", "Trace_Tokeniser.cfg", slim, per_shard_min=4, heap="5g")

    def nontrivial(o):
        if o["kind"] == "vocab":
            return ("vocab", json.dumps(o["case"]["cfg"], sort_keys=True))
        return (o["kind"], json.dumps(o["case"], sort_keys=True))

    nvoc = sum(1 for o in obs if o["kind"] == "vocab")
    nent = sum(len(o["entries"]) for o in obs if o["kind"] == "vocab")
    samples = [{"kind": o["kind"], "cfg": {k: o["case"]["cfg"][k] for k in ("tracks", "nbins", "running", "fuseTrk", "fuseVal", "fuseVel", "pitLo", "pitHi")},
                "first_entries": [e["key"] for e in o.get("entries", [])[:6]], "want": o.get("want"), "tokens": o.get("tokens", [])[:8]}
               for o in (obs[:1] + obs[nvoc + 3:nvoc + 5])]
    return ctx.finish(list(zip(obs, ver)),
                      rule="complete dictionaries of a configuration lattice (all 16 flag sets x bin counts x track counts x pitch "
                           "ranges x note-value sets), every entry checked (id range, both round trips, accepted by detokenise), "
                           "plus one witness piece per abstract token of Vocab(cfg) written by TLC for the 16 model "
                           "configurations, forcing the emission of that token; plus closure sweeps over inputs tokenise may "
                           "accept or reject (every signature n/d for n<=24, every velocity under 9-13 bin counts fused and "
                           "unfused, pitches around the range, note values in and out of the set, track-count mismatches, "
                           "onsets on and off the step grid); non-trivial = distinct configuration / (configuration, wanted "
                           "token) / closure input",
                      nontrivial=nontrivial, samples=samples, exhaustive=True,
                      extra_cov={"dictionaries": nvoc, "dictionary_entries_checked": nent,
                                 "closure_inputs_accepted": sum(1 for o in obs if o["kind"] == "closure" and o["tokRaised"] == ""),
                                 "closure_inputs_rejected": sum(1 for o in obs if o["kind"] == "closure" and o["tokRaised"] != "")})


# ------------------------------------------------------------------ C03

def chunked(case):
    idx, c, piece, cuts, qnl = case
    route = "split" if qnl == "split" else "bars"
    line = {"kind": "chunk", "cfg": c, "piece": piece, "cuts": cuts, "qnl": qnl is True, "route": route, "raised": "",
            "chunked": EMPTY_OUT, "single": EMPTY_OUT, "expected": [], "nbars": 0,
            "case": {"cfg": c, "piece": piece, "cuts": cuts, "qnl": qnl}}
    # every fourth case uses the legal non-default argument insert_bar_token=False in all calls (single and chunked)
    bar_tok = idx % 4 != 3
    line["barTokens"] = bar_tok
    try:
        tok = shared_tokeniser(c, idx)
        seqs = piece_sequences(piece)
        if route == "split":
            # chunks of whole bars obtained by plain splitting at the chosen bar lines: only the first chunk (and chunks
            # where the piece itself changes signature) start with a signature event
            bounds = [0] + sorted(cuts) + [piece["end"]]
            caps = [b - a for a, b in zip(bounds, bounds[1:])]
            whole = [s.copy() for s in seqs]
            parts = [s.split(caps[:-1]) if len(caps) > 1 else [s.copy()] for s in seqs]
            groups = list(range(len(caps)))
            line["nbars"] = len(caps)
            chunks = [[(p[k] if k < len(p) else Sequence()) for p in parts] for k in groups]
        else:
            bars = Sequence.sequences_split_bars(seqs, meta_track_index=0, quantise_note_lengths=bool(qnl))
            nb = len(bars[0])
            line["nbars"] = nb
            # the piece the property talks about: the bars laid end to end
            whole = [Bar.to_sequence([b.copy() for b in tb]) for tb in bars]
            t, bounds = 0, [0]
            for b in bars[0]:
                t += sum(m["t"] for m in P.raw_rel(b.sequence) if m["ty"] == "wait")
                bounds.append(t)
            groups, cur = [], []
            for k in range(nb):
                cur.append(k)
                if bounds[k + 1] in cuts or k == nb - 1:
                    groups.append(cur)
                    cur = []
            chunks = [[Bar.to_sequence([tb[k].copy() for k in grp]) for tb in bars] for grp in groups]
        exp = []
        for i, s in enumerate(whole):
            ns, _ = P.notes_of_abs(P.raw_abs(s))
            exp += [{"trk": i, "p": n["p"], "s": n["s"], "e": n["e"], "v": observed_bin(tok, n["v"])} for n in ns]
        line["expected"] = exp
        # the inputs arrive in rotating freshness states: as built, both views materialised (whole piece / chunks)
        if idx % 3 == 1:
            [s.refresh() for s in whole]
        elif idx % 3 == 2:
            [s.refresh() for part in chunks for s in part]
        single = tok.tokenise(whole, insert_bar_token=bar_tok)
        line["single"] = project_out(tok.detokenise(tok.decode(tok.encode(single))))
        state, toks = dict(), []
        for part in chunks:
            toks.extend(tok.tokenise(part, insert_bar_token=bar_tok, state_dict=state))
        line["ncalls"] = len(chunks)
        line["chunked"] = project_out(tok.detokenise(tok.decode(tok.encode(toks))))
    except Exception as e:
        line["raised"] = f"{type(e).__name__}: {e}"
    return line


def observed_bin(tok, v):
    for b in tok.velocity_bins:
        if v <= b:
            return P._int(b)
    return -1


def run_c03(ctx, g):
    rng = ctx.rng
    if ctx.replay:
        c = json.load(open(ctx.replay))["observation"]["case"]
        cases = [(0, c["cfg"], c["piece"], c["cuts"], c["qnl"])]
    else:
        cfgs = [with_nbins(c) for c in g["configs"]]
        cases = []
        for k, pc in enumerate(g["pieces"]):
            # bar lines of the piece (the harness needs them only to enumerate the partitions)
            t, sig, lines = 0, (4, 4), []
            while t < pc["end"]:
                for s in sorted(pc["sigs"]):
                    if s[0] <= t:
                        sig = (s[1], s[2])
                t += 96 * sig[0] // sig[1]
                lines.append(t)
            interior = lines[:-1]
            subsets = [list(x) for r in range(len(interior) + 1) for x in itertools.combinations(interior, r)]
            for cuts in subsets:
                c = cfgs[(k + len(cuts)) % len(cfgs)]
                cases.append((len(cases), c, pc, cuts, (k % 2 == 0)))
                if cuts:
                    cases.append((len(cases), c, pc, cuts, "split"))
        if not ctx.thorough and len(cases) > 5000:
            cases = rng.sample(cases, 5000)
        # a time-signature message in the middle of a bar is legal input (tokenise skips it); it must not leak into
        # the carried state: the model's pieces of >= 3 bars with such a message, split route, every partition
        for k, pc in enumerate(g["pieces"]):
            if pc["end"] < 264 or pc["sigs"] != [[96, 3, 4], [168, 4, 4]] or k % (1 if ctx.thorough else 2):
                continue
            mid = dict(pc, midsigs=[[36, 2, 4]] if k % 4 < 2 else [[120, 5, 4]])
            for cuts in ([96], [168], [96, 168]):
                cases.append((len(cases), cfgs[k % len(cfgs)], mid, cuts, "split"))
        # ... and four plain 4/4 bars with one mid-bar message: the later chunks carry no signature message of their own
        import itertools as _it
        for k, pc in enumerate(g["pieces"]):
            if k % (4 if ctx.thorough else 16) or not any(pc["tracks"]):
                continue
            four = {"tracks": [[dict(n, s=n["s"] + 96 * (j % 3), e=n["e"] + 96 * (j % 3)) for j, n in enumerate(tr) if n["e"] <= 192 - 96 * 0]
                               for tr in pc["tracks"]], "sigs": [[0, 4, 4]] if k % 2 else [], "end": 384, "cap": True, "bars": True,
                    "midsigs": [[48, 3, 4]] if k % 3 else [[120, 2, 4]]}
            if any(n["s"] < b < n["e"] for tr in four["tracks"] for n in tr for b in (96, 192, 288)):
                continue
            for r in (1, 2, 3):
                for cuts in _it.combinations((96, 192, 288), r):
                    cases.append((len(cases), cfgs[k % len(cfgs)], four, list(cuts), "split"))
        # a configuration in which a velocity-bin value (24 with 8 bins) coincides with a note value: running values
        # carried under a wrong key only show then.  The model's pieces with quiet first notes, every partition.
        collide = dict(cfgs[0], nbins=8, running=True, fuseVal=False, fuseVel=False, fuseTrk=True)
        for k, pc in enumerate(g["pieces"]):
            if sum(len(t) for t in pc["tracks"]) < 2 or k % (1 if ctx.thorough else 3):
                continue
            quiet = {"tracks": [[dict(n, v=20 if (n["s"] < 96) else n["v"]) for n in tr] for tr in pc["tracks"]],
                     "sigs": pc["sigs"], "end": pc["end"], "cap": pc["cap"], "bars": pc["bars"]}
            t, sig, lines = 0, (4, 4), []
            while t < pc["end"]:
                for s_ in sorted(pc["sigs"]):
                    if s_[0] <= t:
                        sig = (s_[1], s_[2])
                t += 96 * sig[0] // sig[1]
                lines.append(t)
            if len(lines) > 1:
                cases.append((len(cases), collide, quiet, lines[:-1], False))
        for k in range(20000 if ctx.thorough else 2500):
            c = random_cfg(rng)
            c["values"] = [4, 6, 8, 9, 12, 16, 18, 24, 36]       # bars are re-quantised to the default note values
            c["steps"] = DEFAULT_STEPS
            pc = random_piece(rng, c)
            if not pc["bars"]:
                continue
            t, sig, lines = 0, (4, 4), []
            while t < pc["end"]:
                for s in sorted(pc["sigs"]):
                    if s[0] <= t:
                        sig = (s[1], s[2])
                t += c["ppqn"] * 4 * sig[0] // sig[1]
                lines.append(t)
            interior = lines[:-1]
            cuts = [b for b in interior if rng.random() < .5]
            crossing = any(n["s"] < b < n["e"] for tr in pc["tracks"] for n in tr for b in lines)
            if c["ppqn"] != 24:      # the bar splitter works at the library resolution; other resolutions go the split route
                if crossing:
                    continue
                cases.append((len(cases), c, pc, cuts, "split"))
                continue
            # cut fragments only have allowed note values after re-quantisation
            cases.append((len(cases), c, pc, cuts, True if crossing else rng.choice([True, False, "split"])))
        # call groups of several bars in which a long note crosses the (uncut) inner bar lines and sounds to the very end of
        # the group while shorter notes are struck after it; the next group follows directly (plain split route)
        for k in range(6000 if ctx.thorough else 600):
            num, den = rng.choice([(2, 4), (2, 8), (3, 8), (3, 4), (4, 4)])
            bar = 96 * num // den
            nb1 = rng.choice([2, 2, 3])
            c = dict(random_cfg(rng), ppqn=24, steps=DEFAULT_STEPS, tracks=rng.choice([1, 2]), pitLo=60, pitHi=72)
            gend = nb1 * bar
            s0 = 2 * rng.randint(0, bar // 2 - 1)
            vals = sorted({gend - s0, 6, 12, 24})
            c["values"] = vals
            notes = [{"p": 60, "s": s0, "e": gend, "v": 90}]
            for _ in range(rng.randint(1, 3)):
                s1 = s0 + 2 * rng.randint(1, max(1, (gend - s0) // 2 - 4))
                v1 = rng.choice([6, 12])
                if s1 + v1 <= gend - 2 and (s1 // bar) == ((s1 + v1 - 1) // bar):
                    notes.append({"p": rng.choice([62, 64]), "s": s1, "e": s1 + v1, "v": 70})
            nb2 = rng.choice([1, 2])
            notes.append({"p": 65, "s": gend + 2 * rng.randint(0, bar // 2 - 4), "e": 0, "v": 80})
            notes[-1]["e"] = notes[-1]["s"] + 6
            busy, keep = {}, []
            for n in sorted(notes, key=lambda x: x["s"]):
                if busy.get(n["p"], -1) > n["s"]:
                    continue
                busy[n["p"]] = n["e"]
                keep.append(n)
            tracks = [keep] + [[] for _ in range(c["tracks"] - 1)]
            pc = {"tracks": tracks, "sigs": [[0, num, den]], "end": (nb1 + nb2) * bar, "cap": True, "bars": True}
            cuts = [gend] + ([gend + bar] if nb2 == 2 and rng.random() < .5 else [])
            cases.append((len(cases), c, pc, cuts, "split"))
    if ctx.fixtures and not ctx.replay:
        for c, pc in fixture_pieces(rng):
            lines = list(range(96, pc["end"], 96))
            cases.append((len(cases), c, pc, [b for b in lines if rng.random() < .5], True))
    obs = pmap(chunked, cases, chunk=100)
    for i, o in enumerate(obs):
        o["id"] = i
    slim = [{k: v for k, v in o.items() if k not in ("case",)} for o in obs]
    ver = ctx.validate("Trace_Tokeniser", "Trace_Tokeniser.cfg", slim, per_shard_min=100)
    multi = sum(1 for o in obs if o.get("ncalls", 0) > 1)
    if not ctx.replay and multi == 0:
        raise core.MachineryError("vacuity: no case used more than one call")

    def nontrivial(o):
        if o.get("ncalls", 0) < 2:
            return None
        return (json.dumps(o["case"]["cfg"], sort_keys=True), json.dumps(o["piece"], sort_keys=True), tuple(o["cuts"]), str(o["case"]["qnl"]))

    samples = [{"piece": o["piece"], "cuts": o["cuts"], "ncalls": o.get("ncalls"), "nbars": o["nbars"]}
               for o in obs[5::max(1, len(obs) // 3)]][:3]
    return ctx.finish(list(zip(obs, ver)),
                      rule="whole-bar pieces of TokeniserSys.tla (1-3 bars, signature changes, empty bars) x every partition of their "
                           "bars into consecutive calls, chunks obtained as Bar objects from sequences_split_bars (both settings) and by plain "
                           "Sequence.split at the chosen bar lines (chunks that do not restart with a signature event), plus seeded "
                           "random pieces of up to 6 bars with random partitions and configurations; non-trivial = distinct case "
                           "with at least two calls",
                      nontrivial=nontrivial, samples=samples, extra_cov={"cases_with_several_calls": multi})


# ------------------------------------------------------------------ C19

def render(tok, a):
    """Abstract token -> the dictionary key that parses to it (no format knowledge beyond parse_token)."""
    cache = getattr(tok, "_verif_render", None)
    if cache is None:
        cache = {json.dumps(parse_token(k), sort_keys=True): k for k in tok.dictionary}
        tok._verif_render = cache
    return cache.get(json.dumps(a, sort_keys=True))


def notes_set(seqs):
    """Multiset of note-on events (track, pitch, tick, velocity) of detokenised sequences.  Note-ons rather than paired
    notes: an arbitrary stream may place overlapping notes of one pitch, which have no unique pairing."""
    import collections
    out = collections.Counter()
    for i, s in enumerate(seqs):
        for m in P.raw_abs(s):
            if m["ty"] == "on":
                out[(i, m["p"], m["t"], m["v"])] += 1
    return out


def info_case(case):
    idx, c, stream, piece = case
    line = {"kind": "info", "cfg": c, "n": 0, "raised": "", "info": {"pos": [], "time": [], "timeBar": [], "pitch": [], "cof": []},
            "placed": [], "fromTokenise": piece is not None, "barLines": [], "imputedSame": False, "tokens": [],
            "case": {"cfg": c, "stream": stream, "piece": piece}}
    try:
        tok = shared_tokeniser(c, idx)
        if piece is not None:
            tokens = tok.tokenise(piece_sequences(piece))
        elif stream and isinstance(stream[0], int):
            # an arbitrary vocabulary stream, given by positions in the configuration's own dictionary (grouped by kind)
            import random as _r
            rr = _r.Random(stream[0])
            keys = list(tok.dictionary)
            groups = {}
            for k_ in keys:
                groups.setdefault(k_.split("_")[0], []).append(k_)
            kinds = sorted(groups)
            tokens = []
            for _ in range(stream[1]):
                kind = rr.choice(kinds + ["rst", "rst", "bar", "trk"] if "trk" in groups else kinds + ["rst", "bar"])
                tokens.append(rr.choice(groups.get(kind) or keys))
        else:
            tokens = [render(tok, a) for a in stream]
            if any(t is None for t in tokens):
                raise core.MachineryError(f"abstract token has no dictionary key: {stream}")
        line["tokens"] = list(tokens)
        n = len(tokens)
        line["n"] = n
        if n and idx % 2:
            # history: the same list object was annotated before while it held another stream of the same length
            # (each judged call directly follows a call with the same arguments on the same list object)
            work = list(tokens)
            other = next((t for t in tok.dictionary if t.startswith("rst_") and t != tokens[0]), tokens[0])
            res = []
            for flag in (False, True):
                work[0] = other
                try:
                    tok.get_info(work, flag_impute_values=flag)
                except Exception:
                    pass
                work[0] = tokens[0]
                res.append(tok.get_info(work, flag_impute_values=flag))
            info, imp = res
        else:
            info = tok.get_info(list(tokens))
            imp = tok.get_info(list(tokens), flag_impute_values=True)
        num = lambda x: -999 if x != x else P._int(x)        # NaN -> -999
        line["info"] = {"pos": [num(x) for x in info["info_position"]], "time": [num(x) for x in info["info_time"]],
                        "timeBar": [num(x) for x in info["info_time_bar"]], "pitch": [num(x) for x in info["info_pitch"]],
                        "cof": [num(x) for x in info["info_circle_of_fifths"]]}
        placed, prev = [], notes_set([])
        for i in range(n):
            cur = notes_set(tok.detokenise(list(tokens[:i + 1])))
            new = cur - prev
            if sum(new.values()) == 1:
                (trk, p, s, v), = new
                placed.append({"note": True, "s": s, "p": p})
            else:
                placed.append({"note": False, "s": -1, "p": -1})
            prev = cur
        line["placed"] = placed
        # with imputation the entries of note tokens and all clocks must be the same
        same = imp["info_position"] == info["info_position"] and imp["info_time"] == info["info_time"] and \
            imp["info_time_bar"] == info["info_time_bar"] and len(imp["info_pitch"]) == n and len(imp["info_circle_of_fifths"]) == n
        for i in range(n):
            if placed[i]["note"] and (imp["info_pitch"][i] != info["info_pitch"][i] or
                                      imp["info_circle_of_fifths"][i] != info["info_circle_of_fifths"][i]):
                same = False
        line["imputedSame"] = bool(same)
        if piece is not None:
            full = tok.detokenise(list(tokens))
            line["barLines"] = sorted(set(m["t"] for m in P.raw_abs(full[0]) if m["ty"] == "int"))
    except core.MachineryError:
        raise
    except Exception as e:
        line["raised"] = f"{type(e).__name__}: {e}"
    return line


def run_c19(ctx, g):
    rng = ctx.rng
    if ctx.replay:
        c = json.load(open(ctx.replay))["observation"]["case"]
        cases = [(0, c["cfg"], c["stream"], c["piece"])]
    else:
        cases = []
        n = g["streamLen"]
        both = [(c, l) for c, l in zip(g["configs"], g["letters"])]
        both += [(dict(c, ppqn=48), l) for c, l in both if c["ppqn"] == 24]
        for c, letters in both:
            c = with_nbins(c)
            full = (4 if c["ppqn"] == 24 else 3) if not ctx.thorough else (5 if c["ppqn"] == 24 else 4)
            for ln in range(1, full + 1):
                for st in itertools.product(letters, repeat=ln):
                    cases.append((len(cases), c, list(st), None))
            for _ in range(60000 if ctx.thorough else 4000):
                cases.append((len(cases), c, [rng.choice(letters) for _ in range(rng.randint(full + 1, 14))], None))
        for k in range(20000 if ctx.thorough else 2500):
            c = random_cfg(rng)
            cases.append((len(cases), c, [], random_piece(rng, c)))
        # arbitrary streams over the complete vocabulary of random configurations, incl. odd resolutions (bar capacities
        # that are not whole ticks: 5/8 at 3 ticks per quarter is 7.5)
        for k in range(12000 if ctx.thorough else 2000):
            c = random_cfg(rng)
            c.update(pitHi=min(c["pitHi"], c["pitLo"] + 4), nbins=min(c["nbins"], 3), tracks=min(c["tracks"], 2))
            if k % 3 == 0:
                c.update(ppqn=rng.choice([3, 5, 9]), steps=[1, 3], values=[1, 3, 6])
            cases.append((len(cases), c, [rng.randrange(10 ** 6), rng.randint(2, 12)], None))
    obs = pmap(info_case, cases, chunk=200)
    for i, o in enumerate(obs):
        o["id"] = i
    slim = [{k: v for k, v in o.items() if k not in ("case", "tokens")} for o in obs]
    ver = ctx.validate("Trace_Tokeniser", "Trace_Tokeniser.cfg", slim, per_shard_min=100)
    withnotes = sum(1 for o in obs if any(p["note"] for p in o["placed"]))
    if not ctx.replay and withnotes == 0:
        raise core.MachineryError("vacuity: no stream placed a note")

    def nontrivial(o):
        if not any(p["note"] for p in o["placed"]):
            return None
        return (json.dumps(o["case"]["cfg"], sort_keys=True), tuple(o["tokens"]))

    samples = [{"tokens": o["tokens"][:12], "info_time": o["info"]["time"][:12], "placed": [p["s"] for p in o["placed"]][:12]}
               for o in obs[11::max(1, len(obs) // 3)]][:3]
    return ctx.finish(list(zip(obs, ver)),
                      rule="initial states of the arbitrary-stream system of TokeniserSys.tla: every stream up to length 4 (thorough 5) "
                           "over the reduced vocabulary of 2 configurations (bar tokens in partly filled bars, signature tokens "
                           "mid-bar, unfused running values, pad), seeded random streams up to length 14, and streams produced by "
                           "tokenise from random valid pieces over random configurations; note placements are obtained from "
                           "prefix detokenisation; non-trivial = distinct (configuration, stream) placing a note",
                      nontrivial=nontrivial, samples=samples, extra_cov={"streams_placing_a_note": withnotes})


# ------------------------------------------------------------------ entry

MC = {"C01": ("MC_Tokeniser_C01.cfg", ["BeginCall", "TokEv", "EndCallA", "ConsumeTok", "Finish"]),
      "C02": ("MC_Tokeniser_C01.cfg", ["BeginCall", "TokEv", "EndCallA", "ConsumeTok", "Finish"]),
      "C03": ("MC_Tokeniser_C03.cfg", ["BeginCall", "TokEv", "EndCallA", "ConsumeTok", "Finish"]),
      "C19": ("MC_Tokeniser_C19.cfg", ["ConsumeTok", "Finish"])}


def run(ctx):
    g = None
    if not ctx.replay:
        env = {"VERIF_TIER": ctx.tier, "MC_WHICH": ctx.pid}
        cfgfile, acts = MC[ctx.pid]
        ctx.model_check("MC_Tokeniser", cfgfile, env=env, expect_actions=acts, coverage=False, timeout=7200, heap="10g")
        if ctx.pid == "C01":
            d = core.run_tlc("MC_Tokeniser", "MC_Tokeniser_C01_asbuilt.cfg", workers="auto",
                             env={"VERIF_TIER": "quick", "MC_WHICH": "C02"}, timeout=3600, heap="10g")
            if "Invariant DurationRoundedUp is violated" not in d.out:
                raise core.MachineryError("self-test: the as-built switch no longer violates DurationRoundedUp in the model")
        g = ctx.generate("Gen_Tokeniser", "Gen_Tokeniser.cfg", env=env)[0]
    return {"C01": run_c01, "C02": run_c02, "C03": run_c03, "C19": run_c19}[ctx.pid](ctx, g)
