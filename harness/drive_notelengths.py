"""C06: quantise_note_lengths.  Initial states of NoteLengths.tla (score x value list x extension flag) and seeded
random larger sequences go through the real code; TLC judges (input view, values, flag, output view)."""
import json

from harness import core, project as P
from harness.common import pmap, build, via4, canonical_in, doubled, perturb_returned_defaults
from harness.drive_quantise import random_score

core.import_scoda()

# the defaults that follow from the settings (PPQN 24: whole..32nd note bounds, triplets, one dotting), spelled out
DEFAULT_VALUES = [24, 12, 6, 16, 8, 4, 36, 18, 9]


def execute_bars(case):
    """C06 through the bar-splitting entry point: with re-quantisation on, every note of every bar has an allowed duration."""
    idx, score = case
    line = {"values": list(DEFAULT_VALUES), "noExtend": True, "in": [], "out": [], "outRel": [], "raised": "", "entry": "bars",
            "case": {"score": score, "values": list(DEFAULT_VALUES), "noExtend": True, "entry": "bars"}}
    try:
        from scoda.elements.bar import Bar
        from scoda.sequences.sequence import Sequence
        # (bar splitting wants signature changes on bar lines: only signatures on tick 0 are kept)
        score = dict(score, extras=[m for m in score.get("extras", []) if m["t"] == 0 and m["ty"] in ("ts", "ks")])
        seq = build(score, via4(idx))
        line["in"] = canonical_in(seq, score)
        bars = Sequence.sequences_split_bars([seq], 0, quantise_note_lengths=True)[0]
        joined = Bar.to_sequence(bars)
        line["out"] = P.raw_abs(joined)
        line["outRel"] = P.raw_rel(joined)
    except Exception as e:
        line["raised"] = f"{type(e).__name__}: {e}"
    return line


def execute(case):
    idx, score, values, noext = case
    line = {"values": values, "noExtend": noext, "in": [], "out": [], "outRel": [], "raised": "", "entry": "",
            "case": {"score": score, "values": values, "noExtend": noext}}
    try:
        if idx % 11 == 10:      # the score played twice: one object concatenated with itself (shared Message objects)
            seq = doubled(score)
            line["in"] = P.raw_abs(seq)
        else:
            seq = build(score, via4(idx))
            line["in"] = canonical_in(seq, score)
        if idx % 9 == 8:
            # history: the same object had its note lengths quantised to the same values before, and the notes were
            # stretched since (scale by 3 on the relative side); the judged call starts from what the object holds now
            seq.quantise_note_lengths(list(values), do_not_extend=noext)
            if idx % 2:
                seq.scale(3, quantise_afterwards=False)
            else:
                seq.cutoff(7, 5)          # (an absolute-side change: the same absolute object lives on)
            line["in"] = P.raw_abs(seq)
        if idx % 7 == 3:
            # history: the sequence was padded to end in a short rest (as pad, split and bars leave it), so the absolute view is
            # derived from a relative one and carries an end marker shortly after the last note
            last = max([m["t"] for m in line["in"]] + [0])
            seq.pad(last + (1, 2, 5)[idx % 3])
            line["in"] = P.raw_abs(seq)
        perturb_returned_defaults()
        sigs = [(m["ty"], m["n"], m["d"], m["k"]) for m in line["in"] if m["ty"] in ("ts", "ks")]
        if idx % 13 == 12 and len(set(sigs)) == len(sigs):      # (normalise would drop a signature repeating the one in force)
            # the composite entry point (grid step 1 = identity, then the note lengths, then normalise)
            seq.quantise_and_normalise([1], list(values), do_not_extend=noext)
        elif values == list(DEFAULT_VALUES) and idx % 2:
            seq.quantise_note_lengths(do_not_extend=noext)     # the default values through the default argument
        else:
            seq.quantise_note_lengths(list(values), do_not_extend=noext)
        line["out"] = P.raw_abs(seq)
        line["outRel"] = P.raw_rel(seq)            # both views are read after the operation: they must agree
    except Exception as e:
        line["raised"] = f"{type(e).__name__}: {e}"
    return line


def run(ctx):
    if ctx.replay:
        c = json.load(open(ctx.replay))["observation"]["case"]
        cases = [(0, c["score"], c["values"], c["noExtend"]), (1, c["score"], c["values"], c["noExtend"])]
    else:
        ctx.model_check("MC_NoteLengths", "MC_NoteLengths.cfg", env={"VERIF_TIER": ctx.tier},
                        expect_actions=["Requantise", "DropNote"], coverage=False, timeout=3000)
        g = ctx.generate("Gen_NoteLengths", "Gen_NoteLengths.cfg", env={"VERIF_TIER": ctx.tier})[0]
        cases = []
        for sc in g["scores"]:
            for vl in g["valuelists"]:
                for ne in (False, True):
                    cases.append((len(cases), sc, vl, ne))
        if not ctx.thorough:
            cases = [c for c in cases if (c[0] // 14) % 5 == 0 or (c[0] % 14) in ((c[0] // 14) % 14, (c[0] // 14 + 7) % 14)]
        # (lists with repeated entries are what chaining the library's duration helpers produces)
        vls = g["valuelists"] + [list(DEFAULT_VALUES), [3, 9], [1], [24, 12, 6], [24, 12, 6, 36, 18, 9, 16, 8, 4, 24, 12, 6],
                                 [6, 3, 6], [2, 5, 5, 2, 7]]
        for _ in range(60000 if ctx.thorough else 8000):
            sc = random_score(ctx.rng, 12 if ctx.rng.random() < .5 else 5, ctx.rng.choice([20, 60, 200]),
                              pitches=(60, 61) if ctx.rng.random() < .7 else (60,))
            cases.append((len(cases), sc, ctx.rng.choice(vls), ctx.rng.random() < .5))
    if ctx.fixtures and not ctx.replay:
        from harness import fixtures
        for kind in ("raw", "quantised"):
            for sc in fixtures.slices(kind):
                for vl in (list(DEFAULT_VALUES), [12, 24], [6]):
                    for ne in (False, True):
                        cases.append((len(cases), {k: sc[k] for k in ("notes", "extras", "dur")}, vl, ne))
    obs = pmap(execute, cases, chunk=400)
    if not ctx.replay:
        # the bar-splitting entry point on the random scores (notes of arbitrary length in every bar, the last one included)
        bar_cases = [(i, c[1]) for i, c in enumerate(cases) if c[0] % 6 == 0 and max([n["e"] for n in c[1]["notes"]] + [0]) > 0][:3000]
        obs += pmap(execute_bars, bar_cases, chunk=200)
    for i, o in enumerate(obs):
        o["id"] = i
    slim = [{k: v for k, v in o.items() if k != "case"} for o in obs]
    ver = ctx.validate("Trace_NoteLengths", "Trace_NoteLengths.cfg", slim, per_shard_min=200)
    removed = sum(1 for v in ver if v.get("removed", 0) > 0)
    if not ctx.replay and removed == 0:
        raise core.MachineryError("vacuity: no note was ever removed in this run")

    def nontrivial(o):
        if not any(m["ty"] == "on" for m in o["in"]):
            return None
        return (tuple(o["values"]), o["noExtend"], json.dumps(o["in"]))

    samples = [{"values": o["values"], "noExtend": o["noExtend"],
                "in": [(m["ty"], m["t"], m["ch"], m["p"]) for m in o["in"]],
                "out": [(m["ty"], m["t"], m["ch"], m["p"]) for m in o["out"]]} for o in obs[9::max(1, len(obs) // 3)]][:3]
    return ctx.finish(list(zip(obs, ver)),
                      rule="initial states of NoteLengths.tla: well-formed inputs of <=2 notes (2 channels x 2 pitches, and "
                           "back-to-back repeats of one pitch; durations 1,2,3,5,7) x 7 value lists x extension on/off "
                           "(quick: a rotating subset of the triples), plus seeded random inputs of up to 12 notes; "
                           "non-trivial = distinct (values, flag, input with a note)",
                      nontrivial=nontrivial, samples=samples, extra_cov={"observations_with_removed_notes": removed})
