"""C08: Sequence.split.  Initial states of Split.tla (score x capacity list) and seeded random larger sequences are
split by the real code; TLC judges (source before/after in both views, capacities, pieces)."""
import json

from harness import core, project as P
from harness.common import pmap, build, via, doubled
from harness.drive_quantise import random_score


def execute(case):
    idx, score, caps = case
    line = {"caps": caps, "src": [], "srcAfter": [], "absBefore": [], "absAfter": [], "pieces": [], "raised": "",
            "case": {"score": score, "caps": caps}}
    try:
        # every seventh case: the score played twice by concatenating one object with itself (shared Message objects)
        seq = doubled(score, via(idx)) if idx % 7 == 6 else build(score, via(idx))
        if idx % 5 == 3:
            # history: the object was split by the same capacities before and changed in place since
            seq.split(list(caps))
            seq.transpose(1)
            seq.set_channel(1 if idx % 2 else 0)
        line["src"] = P.raw_rel(seq)
        line["absBefore"] = P.raw_abs(seq)
        pieces = seq.split(list(caps))
        line["pieces"] = [P.raw_rel(p) for p in pieces]
        line["srcAfter"] = P.raw_rel(seq)
        line["absAfter"] = P.raw_abs(seq)
    except Exception as e:
        line["raised"] = f"{type(e).__name__}: {e}"
    return line


def run(ctx):
    if ctx.replay:
        c = json.load(open(ctx.replay))["observation"]["case"]
        cases = [(0, c["score"], c["caps"]), (1, c["score"], c["caps"])]
    else:
        ctx.model_check("MC_Split", "MC_Split.cfg", env={"VERIF_TIER": ctx.tier},
                        expect_actions=["StartCap", "TakeOn", "TakeOff", "TakeOther", "TakeWaitWhole", "TakeWaitSplit",
                                        "Exhausted", "Finish"], coverage=False, timeout=3000)
        for cfg in ("MC_Split_d1.cfg", "MC_Split_d2.cfg"):
            d = core.run_tlc("MC_Split", cfg, workers="auto", env={"VERIF_TIER": "quick"})
            if "Invariant MeetsAcceptor is violated" not in d.out:
                raise core.MachineryError(f"self-test: defect switch of {cfg} no longer violates MeetsAcceptor")
        g = ctx.generate("Gen_Split", "Gen_Split.cfg", env={"VERIF_TIER": ctx.tier})[0]
        cases = []
        for sc in g["scores"]:
            for cl in g["caplists"]:
                cases.append((len(cases), sc, cl))
        if not ctx.thorough:
            cases = [c for c in cases if (c[0] // 9) % 3 == 0 or (c[0] % 9) in ((c[0] // 9) % 9, (c[0] // 9 + 4) % 9)]
        caplists = g["caplists"] + [[96], [96, 96], [24, 24, 24, 24], [7, 13], [50, 1, 50], [1, 1, 1], [200], [], []]
        for _ in range(60000 if ctx.thorough else 8000):
            sc = random_score(ctx.rng, 10 if ctx.rng.random() < .5 else 4, ctx.rng.choice([20, 60, 200]))
            cl = ctx.rng.choice(caplists)
            if ctx.rng.random() < .3:
                cl = [ctx.rng.randint(1, 40) for _ in range(ctx.rng.randint(1, 4))]
            cases.append((len(cases), sc, cl))
    if ctx.fixtures and not ctx.replay:
        from harness import fixtures
        for sc in fixtures.slices("quantised"):
            for cl in ([96], [96, 96], [48, 100], [24, 24, 24, 24, 24], [500]):
                cases.append((len(cases), {k: sc[k] for k in ("notes", "extras", "dur")}, cl))
    obs = pmap(execute, cases, chunk=400)
    for i, o in enumerate(obs):
        o["id"] = i
    slim = [{k: v for k, v in o.items() if k != "case"} for o in obs]
    ver = ctx.validate("Trace_Split", "Trace_Split.cfg", slim, per_shard_min=200)
    multi = sum(1 for v in ver if v.get("npieces", 0) > 1)
    if not ctx.replay and multi == 0:
        raise core.MachineryError("vacuity: no split produced more than one piece")

    def nontrivial(o):
        if len(o["pieces"]) < 2:
            return None
        return (tuple(o["caps"]), json.dumps(o["src"]))

    samples = [{"caps": o["caps"], "src": [(m["ty"], m["t"], m["ch"], m["p"]) for m in o["src"]],
                "pieces": [[(m["ty"], m["t"], m["ch"], m["p"]) for m in p] for p in o["pieces"]]}
               for o in obs[11::max(1, len(obs) // 3)]][:3]
    return ctx.finish(list(zip(obs, ver)),
                      rule="initial states of Split.tla: well-formed sources of <=2 notes (2 channels, 2 pitches, notes crossing "
                           "boundaries, signatures on boundaries and on the final tick, trailing rests) x 9 capacity lists "
                           "(quick: rotating subset), plus seeded random sources of up to 10 notes with 1-4 capacities; "
                           "non-trivial = distinct (capacities, source) yielding at least two pieces",
                      nontrivial=nontrivial, samples=samples, extra_cov={"observations_with_several_pieces": multi})
