"""Trace validation of the repository's OWN test suite (part of C04): the tests are run on a scratch copy of the tree
with harness/recorder.py loaded as a pytest plugin; every outermost public call on every Sequence object becomes one
line, and TLC (Trace_SeqViewsLog) checks each line against the coherence protocol of SeqViews.tla."""
import concurrent.futures as cf
import json
import os
import shutil
import subprocess
import tempfile
from pathlib import Path

from harness import core

QUICK_FILES = ["test_sequence.py", "test_absolute_sequence.py", "test_misc.py", "test_track.py"]


def record(ctx, files=None, select=None, limit=None):
    """Runs the chosen test files (one pytest process each) with the recorder; returns the list of lines."""
    root = Path(core.scoda_root())
    scratch = Path(tempfile.mkdtemp(prefix="scoda-testlog-"))       # scratch copy outside /repo and /verif, removed below
    try:
        tree = scratch / "tree"
        shutil.copytree(root, tree, ignore=shutil.ignore_patterns(".git", "__pycache__", ".pytest_cache"))
        names = files or sorted(p.name for p in (tree / "test" / "cases").glob("test_*.py"))

        def one(name):
            log = scratch / (name + ".ndjson")
            env = dict(os.environ, SCODA_TRACE_FILE=str(log), PYTHONPATH=f"{core.VERIF}:{tree}", PYTHONHASHSEED="0",
                       SCODA_TRACE_LIMIT=str(limit or (400000 if ctx.thorough else 60000)))
            target = f"test/cases/{name}" + (f"::{select}" if select else "")
            p = subprocess.run(["/venv/bin/python", "-m", "pytest", "-q", "-p", "no:cacheprovider", "-p", "harness.recorder",
                                "--timeout=1800", target], cwd=tree, env=env, capture_output=True, text=True)
            tail = (p.stdout.strip().splitlines() or [""])[-1]
            lines = [json.loads(x) for x in log.read_text().splitlines()] if log.exists() else []
            for x in lines:
                x["file"] = name
            return name, p.returncode, tail, lines

        with cf.ThreadPoolExecutor(max_workers=min(len(names), core.NCPU)) as ex:
            res = list(ex.map(one, names))
    finally:
        shutil.rmtree(scratch, ignore_errors=True)
    obs, summary = [], {}
    for name, rc, tail, lines in res:
        summary[name] = {"pytest_rc": rc, "pytest": tail[-60:], "calls": len(lines)}
        for x in lines:
            x["kind"] = "log"
            x["grp"] = f"{name}#{x['obj']}"
            obs.append(x)
    return obs, summary


def judge(ctx, obs):
    slim = [{k: o[k] for k in ("id", "grp", "obj", "op", "new", "gap", "b0", "b1", "ca0", "cr0", "ca", "cr", "raised")} for o in obs]
    for x in slim:                       # object identities are per test process: make them unique across files
        x["obj"] = x["grp"]
    return ctx.validate("Trace_SeqViewsLog", "Trace_SeqViewsLog.cfg", slim, group="grp", per_shard_min=2000)


def selftest(ctx, obs, ver):
    """The binding bites: a log with one corrupted field (a freshness bit after a mutator; the content identity of one
    view while both are fresh) must be rejected at exactly that line.  Only lines the validator ACCEPTED are used as the
    base: on a tree that deviates from the protocol the deviating lines are the check's findings (reported as
    violations by the caller), not a defect of the machinery."""
    import copy
    good = {v["id"] for v in ver if not v["fails"] and not v.get("illegal")}
    if len(good) < len(ver) // 2:
        ctx.notes["testlog_selftest"] = "skipped: most logged calls are rejected on this tree"
        return
    obs = [o for o in obs if o["id"] in good]
    mut = next((o for o in obs if o["op"] in ("normalise", "pad", "add_relative_message", "quantise_note_lengths") and o["raised"] == ""), None)
    both = next((o for o in obs if o["b1"] == [True, True] and o["ca"] >= 1 and o["cr"] >= 1), None)
    if mut is None or both is None:
        raise core.MachineryError("self-test: no suitable logged call to corrupt")
    a = copy.deepcopy(mut)
    a.update(id=1, grp="selftest-a", new=True, gap=False, b1=[True, True] if a["b1"] != [True, True] else [False, True])
    if a["ca0"] == -3:
        a.update(ca0=-4 if a["b0"][0] else -1, cr0=-4 if a["b0"][1] else -1)
    b = copy.deepcopy(both)
    b.update(id=2, grp="selftest-b", new=True, gap=False, cr=both["cr"] + 1)
    if b["ca0"] == -3:
        b.update(ca0=-4 if b["b0"][0] else -1, cr0=-4 if b["b0"][1] else -1)
    c = copy.deepcopy(mut)
    c.update(id=3, grp="selftest-c", new=True, gap=False)
    if c["ca0"] == -3:
        c.update(ca0=-4 if c["b0"][0] else -1, cr0=-4 if c["b0"][1] else -1)
    ver = judge(ctx, [a, b, c])
    ok = any(f.startswith("protocol.") for f in ver[0]["fails"]) and "views-agree" in ver[1]["fails"] and not ver[2]["fails"]
    if not ok:
        raise core.MachineryError(f"self-test: corrupted log lines were not rejected as expected: {ver}")
    ctx.notes["testlog_selftest"] = "flipped bit and changed content identity rejected, unchanged line accepted"


def judge_ticks(ctx, obs):
    """C11 over the same log: integer times stay integer under calls with integer arguments (Trace_TickLog)"""
    slim = [{k: o[k] for k in ("id", "grp", "new", "gap", "raised", "kinds", "argKinds", "known")} for o in obs]
    for x in slim:
        x["obj"] = x["grp"]
    return ctx.validate("Trace_TickLog", "Trace_TickLog.cfg", slim, group="grp", per_shard_min=2000)


def run_ticks(ctx, replay_obs=None):
    if replay_obs is not None:
        test = replay_obs.get("test", "")
        obs, summary = record(ctx, [replay_obs["file"]], select=test.split("::", 1)[1] if "::" in test else None)
    else:
        obs, summary = record(ctx, None if ctx.thorough else QUICK_FILES + ["test_bar.py"])
    if not obs:
        raise core.MachineryError(f"the recorder produced no lines: {summary}")
    for i, o in enumerate(obs):
        o["id"] = 10_000_000 + i
    ver = judge_ticks(ctx, obs)
    judged = sum(1 for v in ver if v.get("judged"))
    if replay_obs is None:
        if judged == 0:
            raise core.MachineryError("vacuity: no logged call was judged for integer times")
        # the binding bites: a judged line whose kinds are replaced by a float must be rejected
        import copy
        k = next(i for i, v in enumerate(ver) if v.get("judged"))
        grp = obs[k]["grp"]
        hist = [copy.deepcopy(o) for o in obs if o["grp"] == grp][:50]
        j = next(i for i, o in enumerate(hist) if o["id"] == obs[k]["id"])
        hist[j]["kinds"] = ["float", "int"]
        for i, o in enumerate(hist):
            o.update(id=i, grp="selftest")
        sv = judge_ticks(ctx, hist)
        if "times-stay-integers" not in sv[j]["fails"]:
            raise core.MachineryError(f"self-test: a float time in the log was not rejected: {sv[j]}")
    cov = {"repo_tests_logged_calls": len(obs), "repo_tests_calls_judged_for_integer_times": judged,
           "repo_tests_objects": len(set(o["grp"] for o in obs)), "repo_tests_files": summary}
    return obs, ver, cov


def nontrivial(o):
    return ("log", o["file"], o["obj"], o["n"])


def run(ctx, replay_obs=None):
    if replay_obs is not None:
        test = replay_obs.get("test", "")
        name = replay_obs["file"]
        obs, summary = record(ctx, [name], select=test.split("::", 1)[1] if "::" in test else None)
    else:
        obs, summary = record(ctx, None if ctx.thorough else QUICK_FILES)
    if not obs:
        raise core.MachineryError(f"the recorder produced no lines: {summary}")
    for i, o in enumerate(obs):
        o["id"] = 10_000_000 + i
    ver = judge(ctx, obs)
    if replay_obs is None:
        selftest(ctx, obs, ver)
    judged = sum(1 for v in ver if not v.get("illegal"))
    content = sum(1 for v in ver if v.get("judgedContent"))
    if replay_obs is None and (judged < len(ver) // 2 or content == 0):
        raise core.MachineryError(f"vacuity: only {judged} of {len(ver)} logged calls judged, {content} with content")
    import collections
    ops = collections.Counter(o["op"] for o in obs)
    cov = {"repo_tests_logged_calls": len(obs), "repo_tests_judged_calls": judged, "repo_tests_calls_with_content_clauses": content,
           "repo_tests_objects": len(set(o["grp"] for o in obs)), "repo_tests_ops": dict(ops.most_common(40)),
           "repo_tests_drift": sum(1 for v in ver if v.get("drift")), "repo_tests_files": summary}
    return obs, ver, cov
