"""C07: normalise.  Every message list over the alphabet of Normalise.tla up to the model's bound (the initial states
of the reference system) plus seeded random longer lists over a richer alphabet is normalised by the real code (twice);
TLC judges (input, output, output normalised again)."""
import itertools
import json
import zlib

from harness import core, project as P
from harness.common import pmap

core.import_scoda()
from scoda.sequences.relative_sequence import RelativeSequence  # noqa: E402
from scoda.sequences.sequence import Sequence  # noqa: E402


def execute(rel):
    line = {"in": rel, "out": [], "out2": [], "outAbs": [], "raised": ""}
    try:
        if len(rel) % 3 == 2:
            # equal letters share ONE Message object (what concatenating a motif with itself produces)
            cache = {}
            msgs = [cache.setdefault(json.dumps(m, sort_keys=True), P.mk(m)) for m in rel]
        else:
            msgs = [P.mk(m) for m in rel]
        if len(rel) % 3 == 1:
            # history: the object was normalised before (holding other content of the same length) and its messages were
            # then edited in place through messages_rel() into the input of this case
            s = Sequence()
            for i in range(len(rel)):
                s.add_relative_message(P.mk(P.cc(-1, i % 100, i % 100)))
            s.normalise()
            for m, t in zip(s.messages_rel(), msgs):
                for a in ("message_type", "channel", "time", "note", "velocity", "control", "program", "numerator",
                          "denominator", "key"):
                    setattr(m, a, getattr(t, a))
            if P.raw_rel(s) != [P.msg(m) for m in msgs]:
                raise core.MachineryError("in-place edit route did not produce the input")
        else:
            s = Sequence(relative_sequence=RelativeSequence(msgs))
        if zlib.crc32(json.dumps(rel, sort_keys=True).encode()) % 4 == 0:
            # history: the sequence was normalised, then all its messages were moved to one channel in place (set_channel), so
            # that notes of two channels now coincide; the judged call normalises what the object holds now
            s.normalise()
            s.set_channel(1 if len(rel) % 2 else 0)
        line["in"] = [P.msg(m) for m in s.rel._messages]
        if len(rel) % 4 == 3:
            s.refresh()          # the absolute view is live as well when normalise is called
        s.normalise()
        line["out"] = P.raw_rel(s)
        line["outAbs"] = P.raw_abs(s)
        s.normalise()
        line["out2"] = P.raw_rel(s)
    except core.MachineryError:
        raise
    except Exception as e:
        line["raised"] = f"{type(e).__name__}: {e}"
    return line


def rich_alphabet():
    a = [P.wait(n) for n in (1, 2, 3, 7)]
    for c in (0, 1, 2):
        for p in (0, 1, 2, 60, 61, 126, 127):
            a.append({**P.on(-1, c, p, 80)})
            a.append({**P.off(-1, c, p)})
    a += [P.ts(-1, 4, 4), P.ts(-1, 3, 4), P.ts(-1, 6, 8), P.ks(-1, "C"), P.ks(-1, "G"), P.ks(-1, "Eb"),
          P.cc(-1, 64, 127), P.pc(-1, 5),
          # the same signatures carried on other channels (parts of several instruments in one sequence)
          P.ts(-1, 4, 4, 1), P.ts(-1, 3, 4, 2), P.ks(-1, "C", 1), P.ks(-1, "G", 2)]
    return a


def run(ctx):
    if ctx.replay:
        cases = [json.load(open(ctx.replay))["observation"]["in"]]
    else:
        ctx.model_check("MC_Normalise", "MC_Normalise.cfg", env={"VERIF_TIER": ctx.tier},
                        expect_actions=["NWait", "NOn", "NOff", "NTs", "Finish"], coverage=ctx.thorough is False)
        for cfg in ("MC_Normalise_d1.cfg", "MC_Normalise_d2.cfg"):
            d = core.run_tlc("MC_Normalise", cfg, workers=8)
            if "Invariant MeetsAcceptor is violated" not in d.out:
                raise core.MachineryError(f"self-test: defect switch in {cfg} no longer violates MeetsAcceptor")
        g = ctx.generate("Gen_Normalise", "Gen_Normalise.cfg", env={"VERIF_TIER": ctx.tier})[0]
        alpha, k = g["alphabet"], g["maxlen"]
        cases = []
        for n in range(0, k + 1):
            for t in itertools.product(alpha, repeat=n):
                cases.append([dict(m) for m in t])
        rich = rich_alphabet()
        for _ in range(120000 if ctx.thorough else 12000):
            n = ctx.rng.randint(k + 1, 14 if ctx.thorough else 9)
            al = rich if ctx.rng.random() < .5 else alpha
            cases.append([dict(ctx.rng.choice(al)) for _ in range(n)])
    obs = pmap(execute, cases, chunk=500)
    for i, o in enumerate(obs):
        o["id"] = i
    ver = ctx.validate("Trace_Normalise", "Trace_Normalise.cfg", obs, per_shard_min=200)
    paired = sum(1 for v in ver if v.get("paired"))
    if not ctx.replay and (paired == 0 or paired == len(ver)):
        raise core.MachineryError("vacuity: paired and unpaired inputs not both present")

    def nontrivial(o):
        if not any(m["ty"] in ("on", "off") for m in o["in"]):
            return None
        return json.dumps(o["in"], sort_keys=True)

    def fkey(o, v):
        return None

    samples = [{"in": [(m["ty"], m["t"], m["ch"], m["p"]) for m in o["in"]],
                "out": [(m["ty"], m["t"], m["ch"], m["p"]) for m in o["out"]]} for o in obs[len(obs) // 2::max(1, len(obs) // 7)]][:3]
    return ctx.finish(list(zip(obs, ver)),
                      rule="all relative message lists over the 12-letter alphabet of Normalise.tla up to the model bound "
                           "(quick 4, thorough 5) + seeded random lists up to length 9/14 over a 44-letter alphabet "
                           "(3 channels, 5 pitches incl. pitch = channel number, 3 time and 3 key signatures, control and "
                           "program changes); non-trivial = distinct input containing a note message",
                      nontrivial=nontrivial, samples=samples, finding_key=fkey,
                      extra_cov={"paired_inputs": paired}, exhaustive=False)
