"""Helpers shared by the drivers: parallel map, building real sequences from abstract scores."""
from __future__ import annotations

import multiprocessing as mp
import os

from harness import core, project as P

_FN = None


def _call(chunk):
    return [_FN(x) for x in chunk]


def pmap(fn, items, procs=None, chunk=200):
    """Order-preserving parallel map with fork (the function may be a closure)."""
    global _FN
    items = list(items)
    procs = procs or min(core.NCPU, max(1, len(items) // 50))
    if procs <= 1 or len(items) < 100:
        return [fn(x) for x in items]
    _FN = fn
    chunks = [items[i:i + chunk] for i in range(0, len(items), chunk)]
    ctx = mp.get_context("fork")
    with ctx.Pool(procs) as pool:
        out = pool.map(_call, chunks)
    _FN = None
    return [y for c in out for y in c]


def score_abs(score):
    """Abstract score {notes:[{ch,p,s,e,v}], extras:[msg], dur} -> abstract absolute messages."""
    notes = [(n["ch"], n["p"], n["s"], n["e"], n["v"]) for n in score["notes"]]
    return P.notes_to_abs(notes, [dict(m) for m in score.get("extras", [])], score.get("dur"))


def build(score, via="abs"):
    """via: 'abs' (only the absolute view is current), 'rel' (only the relative one), 'both' (both materialised)."""
    ms = score_abs(score)
    if via == "abs":
        return P.seq_from_abs(ms)
    if via == "both":
        s = P.seq_from_abs(ms)
        s.refresh()
        return s
    return P.seq_from_rel(P.abs_to_rel(ms))


def safe_views(seq):
    v = P.views(seq)
    return v


def via(idx):
    """rotating construction route of the sequence under test"""
    return ("abs", "rel", "both")[idx % 3]
