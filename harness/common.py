"""Helpers shared by the drivers: parallel map, building real sequences from abstract scores."""
from __future__ import annotations

import multiprocessing as mp
import os

from harness import core, project as P

_FN = None


def _call(chunk):
    return [_FN(x) for x in chunk]


def pmap(fn, items, procs=None, chunk=200):
    """Order-preserving parallel map with fork (the function may be a closure)."""
    global _FN
    items = list(items)
    procs = procs or min(core.NCPU, max(1, len(items) // 50))
    if procs <= 1 or len(items) < 100:
        return [fn(x) for x in items]
    _FN = fn
    chunks = [items[i:i + chunk] for i in range(0, len(items), chunk)]
    ctx = mp.get_context("fork")
    with ctx.Pool(procs) as pool:
        out = pool.map(_call, chunks)
    _FN = None
    return [y for c in out for y in c]


def score_abs(score):
    """Abstract score {notes:[{ch,p,s,e,v}], extras:[msg], dur} -> abstract absolute messages."""
    notes = [(n["ch"], n["p"], n["s"], n["e"], n["v"]) for n in score["notes"]]
    return P.notes_to_abs(notes, [dict(m) for m in score.get("extras", [])], score.get("dur"))


def build(score, via="abs"):
    """via: 'abs' (only the absolute view is current), 'rel' (only the relative one), 'both' (both materialised)."""
    ms = score_abs(score)
    if via == "abs":
        return P.seq_from_abs(ms)
    if via == "both":
        s = P.seq_from_abs(ms)
        s.refresh()
        return s
    if via == "late":
        # absolute messages added note by note, later notes first: events of one tick are stored in insertion order, so a
        # note-on can sit in front of the note-off of the same tick until the library sorts
        s = P.Sequence()
        notes = sorted(score["notes"], key=lambda n: (-n["s"], n["ch"], n["p"]))
        for n in notes:
            s.add_absolute_message(P.mk(P.on(n["s"], n["ch"], n["p"], n["v"])))
            s.add_absolute_message(P.mk(P.off(n["e"], n["ch"], n["p"])))
        rest = [m for m in ms if m["ty"] not in ("on", "off")]
        for m in rest:
            s.add_absolute_message(P.mk(m))
        return s
    return P.seq_from_rel(P.abs_to_rel(ms))


def doubled(score, route="rel"):
    """The score played twice: a sequence concatenated with itself, so that every Message object occurs twice in the
    relative view (concatenate shares the messages of its arguments)."""
    s = build(score, route)
    x = P.Sequence()
    x.concatenate([s, s])
    return x


def safe_views(seq):
    v = P.views(seq)
    return v


def via(idx):
    """rotating construction route of the sequence under test"""
    return ("abs", "rel", "both")[idx % 3]


def via4(idx):
    """for operations of the absolute view (which sort before pairing): also the non-canonical insertion order"""
    return ("abs", "rel", "both", "late", "both")[idx % 5]


def canonical_in(seq, score):
    """The stored absolute view as the check's input; for the 'late' route the same timed events in canonical order
    (a machinery error if they are not the same multiset)."""
    stored = P.raw_abs(seq)
    canon = score_abs(score)
    key = lambda m: sorted(m.items())
    if sorted(map(key, [m for m in stored if m["ty"] != "int"])) != sorted(map(key, [m for m in canon if m["ty"] != "int"])):
        return stored
    return canon


_PERTURB = [0]


def perturb_returned_defaults():
    """What a caller building a custom grid does: take the lists the library's default helpers return and edit them
    (add a value of their own - a different one each time -, drop one). The helpers must hand out fresh lists; if they
    hand out shared ones, objects built earlier and later default-argument calls are corrupted."""
    from scoda.misc import util as U
    _PERTURB[0] += 1
    own = [5, 7, 10, 11, 13, 14, 15, 17, 19, 20, 21, 22, 23][_PERTURB[0] % 13] + 24 * (_PERTURB[0] // 13 % 3)
    for lst in (U.get_default_step_sizes(), U.get_default_step_sizes(lower_bound_shift=1), U.get_default_note_values(),
                U.get_velocity_bins()):
        try:
            if _PERTURB[0] % 50 == 49:
                lst.clear()
            else:
                lst.append(own)
                if len(lst) > 3:
                    del lst[1]
        except Exception:
            pass
