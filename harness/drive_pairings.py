"""X01 (extension beyond the listed properties): get_message_pairings / get_interleaved_message_pairings.
Every initial state of Pairings.tla (canonical event lists, well-formed and ill-formed) and seeded random larger lists
are built on real sequences through several insertion orders; TLC judges both results (Trace_Pairings)."""
import json

from harness import core, project as P
from harness.common import pmap

core.import_scoda()
from scoda.enumerations.message_type import MessageType  # noqa: E402
from scoda.sequences.sequence import Sequence  # noqa: E402

TYPES = {"on": MessageType.NOTE_ON, "off": MessageType.NOTE_OFF, "ts": MessageType.TIME_SIGNATURE,
         "ks": MessageType.KEY_SIGNATURE}


def execute(case):
    idx, evs, types, L = case
    line = {"in": [], "types": types, "L": L, "pairs": [], "inter": [], "after": [], "raised": "",
            "case": {"evs": evs, "types": types, "L": L}}
    try:
        order = list(evs)
        if idx % 3 == 1:       # another insertion order inside one tick (later events first)
            order = sorted(evs, key=lambda m: -m["t"])
        seq = P.seq_from_abs(order) if idx % 3 != 2 else P.seq_from_rel(P.abs_to_rel(evs))
        line["in"] = P.raw_abs(seq)
        mt = [TYPES[t] for t in types]
        if idx % 2 and types == ["on", "off"] and L == 24:
            pr = seq.get_message_pairings()                       # defaults
            it = seq.get_interleaved_message_pairings()
        else:
            pr = seq.get_message_pairings(message_types=mt, standard_length=L)
            it = seq.get_interleaved_message_pairings(message_types=mt, standard_length=L)
        line["pairs"] = [{"ch": P._int(c), "list": [[P.msg(m) for m in pg] for pg in lst]} for c, lst in pr.items()]
        line["inter"] = [{"ch": P._int(c), "items": [P.msg(m) for m in pg]} for c, pg in it]
        line["after"] = P.raw_abs(seq)
    except Exception as e:
        line["raised"] = f"{type(e).__name__}: {e}"
    return line


def run(ctx):
    if ctx.replay:
        c = json.load(open(ctx.replay))["observation"]["case"]
        cases = [(i, c["evs"], c["types"], c["L"]) for i in range(6)]
    else:
        ctx.model_check("MC_Pairings", "MC_Pairings.cfg", env={"VERIF_TIER": ctx.tier},
                        expect_actions=["POn", "POff", "POther", "PFinish"])
        g = ctx.generate("Gen_Pairings", "Gen_Pairings.cfg", env={"VERIF_TIER": ctx.tier})[0]
        cases = []
        for evs in g["inputs"]:
            for types in (["on", "off"], ["on", "off", "ts"]):
                cases.append((len(cases), evs, types, g["lengths"][len(cases) % len(g["lengths"])]))
        rng = ctx.rng
        for _ in range(40000 if ctx.thorough else 6000):
            evs, t = [], 0
            for _ in range(rng.randint(3, 14)):
                t += rng.choice([0, 0, 1, 2, 5])
                r = rng.random()
                ch, p = rng.choice([0, 0, 1, 2]), rng.choice([60, 60, 61])
                if r < .45:
                    evs.append(P.on(t, ch, p, rng.choice([20, 80])))
                elif r < .9:
                    evs.append(P.off(t, ch, p))
                elif r < .95:
                    evs.append(P.ts(t, rng.choice([3, 4]), 4, ch))
                else:
                    evs.append(P.ks(t, rng.choice(["C", "D"]), ch))
            types = rng.choice([["on", "off"], ["on", "off", "ts"], ["on", "off", "ts", "ks"]])
            cases.append((len(cases), evs, types, rng.choice([24, 24, 1, 7])))
    obs = pmap(execute, cases, chunk=400)
    for i, o in enumerate(obs):
        o["id"] = i
    slim = [{k: v for k, v in o.items() if k != "case"} for o in obs]
    ver = ctx.validate("Trace_Pairings", "Trace_Pairings.cfg", slim, per_shard_min=200)
    wf = sum(1 for v in ver if v.get("wf"))
    if not ctx.replay and (wf == 0 or wf == len(ver)):
        raise core.MachineryError("vacuity: well-formed and ill-formed inputs not both present")

    def nontrivial(o):
        if not any(m["ty"] == "on" for m in o["in"]):
            return None
        return (tuple(o["types"]), o["L"], json.dumps(o["in"]))

    samples = [{"in": [(m["ty"], m["t"], m["ch"], m["p"]) for m in o["in"]], "L": o["L"],
                "pairs": [[c["ch"], [[(m["ty"], m["t"]) for m in pg] for pg in c["list"]]] for c in o["pairs"]]}
               for o in obs[7::max(1, len(obs) // 3)]][:3]
    return ctx.finish(list(zip(obs, ver)),
                      rule="initial states of Pairings.tla (every canonical event list up to length 4, thorough 5, over a 10-letter "
                           "alphabet: re-strikes, orphan note-offs, unclosed notes, two channels) x 2 type sets, built through "
                           "three insertion routes, plus seeded random lists of 3-14 events; non-trivial = distinct (types, "
                           "standard length, input with a note-on)",
                      nontrivial=nontrivial, samples=samples, extra_cov={"well_formed_inputs": wf})
