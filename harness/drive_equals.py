"""C17: Sequence.equals.  Every behaviour of Equals.tla (base, single-attribute perturbation) is built on the real code
through different representations and insertion orders and compared under all 16 flag combinations; TLC judges."""
import itertools
import json

from harness import core, project as P
from harness.common import pmap, score_abs, build

FLAGS = list(itertools.product([False, True], repeat=4))


def build_route(score, route, rng_seed):
    ms = score_abs(score)
    if route == "abs":
        return P.seq_from_abs(ms)
    if route == "rel":
        return P.seq_from_rel(P.abs_to_rel(ms))
    if route == "swapped":
        # the events of every tick inserted in the opposite order (time and key signature of one tick swap places)
        ticks = sorted(set(m["t"] for m in ms))
        return P.seq_from_abs([m for t in ticks for m in reversed([x for x in ms if x["t"] == t])])
    if route in ("edited", "sharedobjs"):
        return None          # built in execute(): needs the base
    if route == "late":
        # note by note, later notes first: events of one tick end up in another stored order
        return build(score, "late")
    # "shuffled": absolute insertion in another order that keeps the order of equal-tick events
    import random
    r = random.Random(rng_seed)
    idx = list(range(len(ms)))
    r.shuffle(idx)
    # stable w.r.t. equal ticks: insert in shuffled order of distinct ticks, equal ticks in original order
    ticks = sorted(set(m["t"] for m in ms))
    r.shuffle(ticks)
    order = [m for t in ticks for m in ms if m["t"] == t]
    return P.seq_from_abs(order)


def execute(case):
    idx, pair, route = case
    line = {"a": [], "b": [], "res": [], "aa": False, "bb": False, "copyEq": False, "eqOp": False, "raised": "",
            "kind": pair["kind"], "route": route, "case": {"pair": pair, "route": route}}
    try:
        a = build_route(pair["base"], "abs", idx)
        b = build_route(pair["other"], route, idx)
        if b is None and route == "sharedobjs":
            # the two sequences share Message objects wherever their contents agree (the same Message handed to both)
            objs = {}
            for m in a.abs._messages:
                objs.setdefault(json.dumps(P.msg(m), sort_keys=True), []).append(m)
            b = P.Sequence()
            for d in score_abs(pair["other"]):
                pool = objs.get(json.dumps(d, sort_keys=True), [])
                b.add_absolute_message(pool.pop() if pool else P.mk(d))
        if b is None:
            # history: b held the base content and was compared with a (and read) before; it was then edited in place
            # through messages_abs() into the other content. Possible when both contents have the same message
            # structure (single-attribute perturbations); otherwise b is simply built from the other content.
            tgt = [P.mk(m) for m in score_abs(pair["other"])]
            b = build_route(pair["base"], "abs", idx)
            # (comparisons last: nothing that re-sorts the object comes between them and the edit)
            b.get_message_pairings(), b.get_interleaved_message_pairings(), a.equals(b), b.equals(a), b == a
            objs = list(b.messages_abs())        # the real message objects, handed out by the public generator
            k = lambda m: (m.time, -1 if m.channel is None else m.channel, m.message_type, -1 if m.note is None else m.note)
            so, st = sorted(objs, key=k), sorted(tgt, key=k)
            if [m.message_type for m in so] == [m.message_type for m in st]:
                for m, t in zip(so, st):
                    for attr in ("channel", "time", "note", "velocity", "control", "program", "numerator", "denominator", "key"):
                        setattr(m, attr, getattr(t, attr))
            else:
                b = build_route(pair["other"], "abs", idx)
        line["a"], line["b"] = P.raw_abs(a), P.raw_abs(b)
        for f in FLAGS:
            kw = dict(ignore_channel=f[0], ignore_time_signature=f[1], ignore_key_signature=f[2], ignore_velocity=f[3])
            line["res"].append({"flags": list(f), "ab": bool(a.equals(b, **kw)), "ba": bool(b.equals(a, **kw))})
        line["aa"], line["bb"] = bool(a.equals(a)), bool(b.equals(b))
        line["copyEq"] = bool(a.equals(a.copy())) and bool(a.copy().equals(a)) and bool(b.equals(b.copy()))
        # a copy taken in any freshness state equals its original: copy after a relative-side and after an
        # absolute-side operation (content compared through the projection as well)
        for ops in (("transpose",), ("set_channel",), ("pad",), ("cutoff",), ("transpose", "add_absolute_message"),
                    ("add_absolute_message", "transpose")):
            x = build_route(pair["other"], route if route not in ("edited", "sharedobjs") else "abs", idx)
            for op in ops:
                if op == "transpose":
                    x.transpose(1)
                elif op == "set_channel":
                    x.set_channel(1)
                elif op == "pad":
                    x.pad(50)
                elif op == "cutoff":
                    x.cutoff(3, 2)
                elif op == "add_absolute_message":
                    x.add_absolute_message(P.mk(P.cc(2, 64, 5)))
            cp = x.copy()
            same = P.views(cp) == P.views(x)
            if not (bool(x.equals(cp)) and bool(cp.equals(x)) and same):
                line["copyEq"] = False
        line["eqOp"] = bool(a == b)
        others = [bool(b == a), bool(a.abs == b.abs), bool(a.rel == b.rel), not bool(a != b)]
        if any(x != line["eqOp"] for x in others):
            line["eqOp"] = not line["res"][0]["ab"]      # inconsistent operators: force the eq-operator clause to fail
    except Exception as e:
        line["raised"] = f"{type(e).__name__}: {e}"
    return line


def finding_key(o, v):
    return None


def run(ctx):
    if ctx.replay:
        c = json.load(open(ctx.replay))["observation"]["case"]
        cases = [(0, c["pair"], c["route"])]
    else:
        ctx.model_check("MC_Equals", "MC_Equals.cfg", env={"VERIF_TIER": ctx.tier}, expect_actions=["Perturb"])
        pairs = ctx.generate("Gen_Equals", "Gen_Equals.cfg", env={"VERIF_TIER": ctx.tier})
        cases = []
        for p in pairs:
            RT = ("abs", "rel", "shuffled", "late", "edited", "sharedobjs", "swapped")
            routes = list(RT) if p["kind"] == "none" or ctx.thorough else [RT[len(cases) % 7], RT[(len(cases) + 3) % 7]]
            for r in routes:
                cases.append((len(cases), p, r))
    obs = pmap(execute, cases, chunk=300)
    for i, o in enumerate(obs):
        o["id"] = i
    slim = [{k: v for k, v in o.items() if k not in ("case",)} for o in obs]
    ver = ctx.validate("Trace_Equals", "Trace_Equals.cfg", slim, per_shard_min=150)
    nd = sum(1 for v in ver if v.get("anyDiffer"))
    if not ctx.replay and (nd == 0 or nd == len(ver)):
        raise core.MachineryError("vacuity: must-differ and must-equal pairs not both present")

    def nontrivial(o):
        return (o["kind"], o["route"], json.dumps(o["a"]), json.dumps(o["b"]))

    samples = [{"kind": o["kind"], "route": o["route"], "a": [(m["ty"], m["t"], m["ch"], m["p"], m["v"]) for m in o["a"]],
                "b": [(m["ty"], m["t"], m["ch"], m["p"], m["v"]) for m in o["b"]],
                "equals_no_flags": o["res"][0]["ab"] if o["res"] else None} for o in obs[3::max(1, len(obs) // 3)]][:3]
    return ctx.finish(list(zip(obs, ver)),
                      rule="every behaviour of Equals.tla: 475 bases (1-2 notes on 2 channels, 5 signature/key sets) x every legal "
                           "single-attribute perturbation (pitch, onset, duration, velocity, channel uniform / one note, "
                           "signature value / tick, key value / tick) + the unperturbed pair, built through absolute, relative "
                           "and re-ordered insertion, each compared in both directions under all 16 flag combinations; "
                           "non-trivial = distinct (kind, route, a, b)",
                      nontrivial=nontrivial, samples=samples, finding_key=finding_key,
                      extra_cov={"pairs_with_a_must_differ_flagset": nd, "flag_combinations_per_pair": 16})
