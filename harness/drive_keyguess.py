"""X02 (extension): RelativeSequence.get_key_signature_guess against KeyGuess.tla (scales from TheoryDefs.tla)."""
import json

from harness import core, project as P
from harness.common import pmap

core.import_scoda()
from scoda.misc.music_theory import Key  # noqa: E402
from scoda.sequences.sequence import Sequence  # noqa: E402

KEYS = [k.value for k in Key]


def execute(case):
    idx, rel = case
    line = {"rel": [], "guess": "", "after": [], "raised": "", "case": {"rel": rel}}
    try:
        seq = P.seq_from_rel(rel)
        line["rel"] = P.raw_rel(seq)
        g = seq.rel.get_key_signature_guess()
        line["guess"] = g.value if isinstance(g, Key) else f"?{g!r}"
        line["after"] = P.raw_rel(seq)
    except Exception as e:
        line["raised"] = f"{type(e).__name__}: {e}"
    return line


def run(ctx):
    if ctx.replay:
        cases = [(0, json.load(open(ctx.replay))["observation"]["case"]["rel"])]
    else:
        ctx.model_check("MC_KeyGuess", "MC_KeyGuess.cfg", env={"VERIF_TIER": ctx.tier},
                        expect_actions=["ScanKs", "ScanWait", "ScanOn", "ScanOther", "Decide"])
        g = ctx.generate("Gen_KeyGuess", "Gen_KeyGuess.cfg", env={"VERIF_TIER": ctx.tier})[0]
        cases = [(i, p) for i, p in enumerate(g["pieces"])]
        rng = ctx.rng
        for _ in range(30000 if ctx.thorough else 5000):
            k = rng.choice(KEYS)
            # material drawn mostly from one key's scale, some foreign notes, optional signatures at various places
            tonic = {"C": 0, "G": 7, "D": 2, "A": 9, "E": 4, "B": 11, "F#": 6, "C#": 1, "F": 5, "Bb": 10, "Eb": 3, "Ab": 8,
                     "Db": 1, "Gb": 6, "Cb": 11}[k]
            rel = []
            if rng.random() < .15:
                rel.append(P.ks(-1, rng.choice(KEYS)))
            for _ in range(rng.randint(0, 12)):
                pc = (tonic + rng.choice([0, 2, 4, 5, 7, 9, 11])) % 12 if rng.random() < .85 else rng.randrange(12)
                p = 48 + pc + 12 * rng.randint(0, 3)
                rel += [P.on(-1, 0, p, 80), P.wait(rng.choice([1, 6, 12])), P.off(-1, 0, p)]
                if rng.random() < .05:
                    rel.append(P.ks(-1, rng.choice(KEYS)))
            cases.append((len(cases), rel))
    obs = pmap(execute, cases, chunk=500)
    for i, o in enumerate(obs):
        o["id"] = i
    slim = [{k: v for k, v in o.items() if k != "case"} for o in obs]
    ver = ctx.validate("Trace_KeyGuess", "Trace_KeyGuess.cfg", slim, per_shard_min=300)
    led = sum(1 for v in ver if v.get("led"))
    if not ctx.replay and (led == 0 or led == len(ver)):
        raise core.MachineryError("vacuity: pieces with and without a leading signature not both present")

    def nontrivial(o):
        return json.dumps([(m["ty"], m["p"] % 12 if m["ty"] == "on" else m["k"]) for m in o["rel"] if m["ty"] in ("on", "ks", "wait")])

    samples = [{"rel": [(m["ty"], m["p"], m["k"]) for m in o["rel"]][:10], "guess": o["guess"]} for o in obs[3::max(1, len(obs) // 3)]][:3]
    return ctx.finish(list(zip(obs, ver)),
                      rule="initial states of KeyGuess.tla (every list of up to 3, thorough 4, note-ons over 8 pitches x 4 heads with "
                           "signatures before / after a wait) plus seeded random pieces drawn from one key's scale with foreign notes; "
                           "non-trivial = distinct sequence of (note-on pitch class | signature | wait)",
                      nontrivial=nontrivial, samples=samples, extra_cov={"with_leading_signature": led})
