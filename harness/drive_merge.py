"""C15: merge.  Families of scores (initial states of Merge.tla, all pairs; triples sampled) with signature plans are
merged by the real code in every order; TLC judges the observation (Trace_Merge)."""
import itertools
import json

from harness import core, project as P
from harness.common import pmap, build, via4, canonical_in
from harness.drive_quantise import random_score

SIGPLANS = [[], [P.ts(0, 4, 4)], [P.ts(0, 3, 4)], [P.ts(0, 4, 4), P.ts(6, 3, 4)], [P.ks(0, "D")], [P.ts(0, 4, 4), P.ks(4, "G")],
            [P.ts(8, 6, 8)], [P.ks(0, "D"), P.ks(6, "A")],
            # a return to an earlier signature (X - Y - X), within one member and spread over several
            [P.ts(0, 4, 4), P.ts(6, 3, 4), P.ts(12, 4, 4)], [P.ks(0, "C"), P.ks(5, "G"), P.ks(9, "C")], [P.ts(12, 4, 4)],
            [P.ts(0, 4, 4), P.ks(0, "D"), P.ts(4, 3, 4), P.ks(4, "A"), P.ts(10, 4, 4), P.ks(10, "D")],
            # enharmonic twins are different key signature events
            [P.ks(0, "C#"), P.ks(6, "Db")], [P.ks(0, "Gb"), P.ks(5, "F#")], [P.ks(3, "Cb")], [P.ks(0, "B"), P.ks(3, "Cb"), P.ks(8, "B")]]


def execute(case):
    idx, fam = case
    line = {"inputs": [], "outAbs": [], "outRel": [], "orders": [], "raised": "", "case": {"family": fam}}
    try:
        fresh = lambda: [build(sc, via4(idx + i)) for i, sc in enumerate(fam)]
        line["inputs"] = [canonical_in(s, sc) for s, sc in zip(fresh(), fam)]
        perms = list(itertools.permutations(range(len(fam))))
        for k, pi in enumerate(perms):
            seqs = fresh()
            base = seqs[pi[0]]
            base.merge([seqs[j] for j in pi[1:]])
            if k == 0:
                v = P.views(base)
                if not v["readable"]:
                    raise RuntimeError("unreadable: " + v["err"])
                line["outAbs"], line["outRel"] = v["abs"], v["rel"]
            else:
                line["orders"].append(P.raw_abs(base))
    except Exception as e:
        line["raised"] = f"{type(e).__name__}: {e}"
    return line


def run(ctx):
    if ctx.replay:
        c = json.load(open(ctx.replay))["observation"]["case"]
        cases = [(0, c["family"]), (1, c["family"])]
    else:
        ctx.model_check("MC_Merge", "MC_Merge.cfg", env={"VERIF_TIER": ctx.tier}, expect_actions=["MNext"],
                        coverage=False)
        scores = ctx.generate("Gen_Merge", "Gen_Merge.cfg", env={"VERIF_TIER": ctx.tier})[0]["scores"]
        rng = ctx.rng

        def dress(sc):
            d = dict(sc)
            d["extras"] = [dict(m) for m in rng.choice(SIGPLANS)]
            return d
        cases = []
        for a in scores:
            cases.append((len(cases), [dress(a)]))
        pairs = list(itertools.product(scores, scores))
        if not ctx.thorough:
            pairs = rng.sample(pairs, 6000)
        for a, b in pairs:
            cases.append((len(cases), [dress(a), dress(b)]))
        for _ in range(20000 if ctx.thorough else 2500):
            cases.append((len(cases), [dress(rng.choice(scores)) for _ in range(3)]))
        # a member that is nothing but a rest (Sequence().pad(n)) and outlasts the others, in both positions
        for k, a in enumerate(scores[:: (1 if ctx.thorough else 3)]):
            rest = {"notes": [], "extras": [], "dur": 40 + 8 * (k % 5)}
            cases.append((len(cases), [dict(a, extras=[]), rest]))
            cases.append((len(cases), [rest, dict(a, extras=[])]))
        for _ in range(20000 if ctx.thorough else 2500):
            fam = []
            for _ in range(rng.randint(2, 3)):
                sc = random_score(rng, 6, rng.choice([12, 40]), chans=(0, 1), pitches=(60, 61))
                sc["extras"] = [dict(m) for m in rng.choice(SIGPLANS)]
                fam.append(sc)
            cases.append((len(cases), fam))
    if ctx.fixtures and not ctx.replay:
        from harness import fixtures
        sl = fixtures.slices("quantised")
        for a, b in zip(sl, sl[1:]):
            cases.append((len(cases), [{k: x[k] for k in ("notes", "extras", "dur")} for x in (a, b)]))
    obs = pmap(execute, cases, chunk=300)
    for i, o in enumerate(obs):
        o["id"] = i
    slim = [{k: v for k, v in o.items() if k != "case"} for o in obs]
    ver = ctx.validate("Trace_Merge", "Trace_Merge.cfg", slim, per_shard_min=150)
    judged = sum(1 for v in ver if v.get("judged"))
    if not ctx.replay and judged < len(ver) // 3:
        raise core.MachineryError(f"vacuity: only {judged} of {len(ver)} families inside the domain")

    def nontrivial(o):
        if len(o["inputs"]) < 2 or not all(any(m["ty"] == "on" for m in i) for i in o["inputs"]):
            return None
        return json.dumps(o["inputs"])

    samples = [{"inputs": [[(m["ty"], m["t"], m["ch"], m["p"]) for m in i] for i in o["inputs"]],
                "out": [(m["ty"], m["t"], m["ch"], m["p"]) for m in o["outAbs"]]} for o in obs[len(obs) // 2::max(1, len(obs) // 7)]][:3]
    return ctx.finish(list(zip(obs, ver)),
                      rule="families of the scores of Merge.tla (singletons, pairs, sampled triples; overlapping, abutting, nested "
                           "notes, same and different channels, different lengths, empty ones) dressed with one of 8 signature "
                           "plans, plus seeded random families; each merged in every order; non-trivial = distinct family of "
                           ">=2 sequences that all contain notes",
                      nontrivial=nontrivial, samples=samples, extra_cov={"judged_in_domain": judged})
