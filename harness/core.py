"""Core machinery shared by every check: running TLC, sharded trace validation,
known-findings filter, evidence writing and the exit-code contract.

Exit codes of a check: 0 = property held on everything explored, 1 = VIOLATION,
2 = the machinery itself failed (never reported as a violation).
"""
from __future__ import annotations

import concurrent.futures as cf
import hashlib
import json
import os
import random
import re
import shutil
import subprocess
import sys
import tempfile
import time
from pathlib import Path

VERIF = Path(__file__).resolve().parent.parent
SPEC = VERIF / "spec"
OUT = VERIF / "out"
# evaluation of seeded changes (tools/eval_mutant.sh) writes its evidence elsewhere; registered commands never set this
EVIDENCE = Path(os.environ["VERIF_EVIDENCE_DIR"]) if os.environ.get("VERIF_EVIDENCE_DIR") else VERIF / "evidence"
FINDINGS_FILE = VERIF / "known_findings.json"
TLA_JAR = "/opt/veriftools/tla/tla2tools.jar"
TLA_DEPS = "/opt/veriftools/tla/CommunityModules-deps.jar"
NCPU = os.cpu_count() or 4


class MachineryError(Exception):
    """Something in the verification machinery (not in S-Coda) went wrong."""


def scoda_root() -> str:
    return os.environ.get("SCODA_ROOT", "/repo")


def import_scoda():
    """Make `scoda` importable from the tree under test (SCODA_ROOT, default /repo)."""
    root = scoda_root()
    if sys.path[0] != root:
        sys.path.insert(0, root)
    os.environ.setdefault("SCODA_VERIF", "1")
    import logging
    logging.disable(logging.CRITICAL)


# --------------------------------------------------------------------------- TLC

STATS_RE = re.compile(r"(\d+) states generated, (\d+) distinct states found, (\d+) states left on queue")
DEPTH_RE = re.compile(r"The depth of the complete state graph search is (\d+)")


class TlcResult:
    def __init__(self, rc, out, wall):
        self.rc, self.out, self.wall = rc, out, wall
        m = None
        for m in STATS_RE.finditer(out):
            pass
        self.generated = int(m.group(1)) if m else 0
        self.distinct = int(m.group(2)) if m else 0
        d = DEPTH_RE.search(out)
        self.depth = int(d.group(1)) if d else 0
        self.ok = rc == 0 and "Finished in" in out and "Error:" not in out

    def coverage(self):
        """Per-action counts from `-coverage 1` output: {action: (distinct, total)}."""
        cov = {}
        for m in re.finditer(r"<(\w+) line \d+, col \d+ to line \d+, col \d+ of module (\w+)(?: \([\d ]+\))?>: (\d+):(\d+)", self.out):
            cov[m.group(1)] = (int(m.group(3)), int(m.group(4)))
        return cov


def run_tlc(module: str, cfg: str | None = None, workers: int | str = "auto", env: dict | None = None,
            timeout: int = 1800, extra: list[str] | None = None, heap: str = "4g", deque: bool = False) -> TlcResult:
    """Run TLC on spec/<module>.tla with spec/<cfg>. Meta directory is a fresh temp dir removed afterwards."""
    meta = tempfile.mkdtemp(prefix="tlcmeta-", dir=str(OUT))
    gc = ["-XX:+UseParallelGC"] if workers == "auto" or (isinstance(workers, int) and workers > 2) else \
        ["-XX:+UseSerialGC", "-XX:TieredStopAtLevel=4", "-XX:CICompilerCount=2"]
    cmd = ["java"] + gc + [f"-Xmx{heap}", "-Xss64m"]     # deep recursion of the fold / rest operators on long pieces
    if deque:
        cmd.append("-Dtlc2.tool.queue.IStateQueue=StateDeque")
    cmd += ["-cp", f"{TLA_JAR}:{TLA_DEPS}", "tlc2.TLC", "-workers", str(workers), "-metadir", meta,
            "-noGenerateSpecTE"]
    if cfg:
        cmd += ["-config", cfg]
    cmd += (extra or []) + [module + ".tla"]
    e = dict(os.environ)
    e.update({k: str(v) for k, v in (env or {}).items()})
    t0 = time.time()
    try:
        p = subprocess.run(cmd, cwd=str(SPEC), env=e, capture_output=True, text=True, timeout=timeout)
        rc, out = p.returncode, p.stdout + p.stderr
    except subprocess.TimeoutExpired as ex:
        rc, out = 124, (ex.stdout or b"").decode(errors="replace") if isinstance(ex.stdout, bytes) else (ex.stdout or "")
        out += "\nTIMEOUT"
    finally:
        shutil.rmtree(meta, ignore_errors=True)
    return TlcResult(rc, out, time.time() - t0)


# --------------------------------------------------------------------------- findings

def load_findings():
    if FINDINGS_FILE.exists():
        return json.loads(FINDINGS_FILE.read_text())["findings"]
    return []


# --------------------------------------------------------------------------- context of one check run

class Ctx:
    def __init__(self, pid: str, tier: str, seed: int, replay: str | None = None):
        self.pid, self.tier, self.seed, self.replay = pid, tier, seed, replay
        self.rng = random.Random(seed * 1000003 + int(pid[1:]))
        self.t0 = time.time()
        self.mc = []            # model-checking runs
        self.states = 0
        self.transitions = 0
        self.notes = {}
        self.assumptions = []
        OUT.mkdir(exist_ok=True)
        EVIDENCE.mkdir(exist_ok=True)
        self.tmp = Path(tempfile.mkdtemp(prefix=f"run-{pid}-", dir=str(OUT)))

    @property
    def thorough(self):
        return self.tier == "thorough"

    @property
    def fixtures(self):
        """slices of the repository's fixtures are extra inputs of the thorough tier (VERIF_FIXTURES=1 forces them)"""
        return self.thorough or bool(os.environ.get("VERIF_FIXTURES"))

    def cleanup(self):
        shutil.rmtree(self.tmp, ignore_errors=True)

    # ---- step 1: exhaustive model check of the reference system
    def model_check(self, module: str, cfg: str, expect_actions: list[str] | None = None, timeout=1800,
                    workers="auto", env=None, extra=None, heap="6g", coverage=True) -> TlcResult:
        """coverage=False skips TLC's per-action statistics (they triple the run time of large models);
        the vacuity check on `expect_actions` is then only done when coverage is on (always in thorough)."""
        coverage = coverage or self.thorough
        r = run_tlc(module, cfg, workers=workers, env=env, timeout=timeout,
                    extra=(["-coverage", "1"] if coverage else []) + (extra or []), heap=heap)
        if not r.ok:
            sys.stderr.write(r.out[-6000:])
            raise MachineryError(f"model check {module}/{cfg} failed (rc={r.rc}): the specification itself "
                                 f"violates an invariant or did not run")
        cov = r.coverage()
        if expect_actions and coverage:
            never = [a for a in expect_actions if cov.get(a, (0, 0))[1] == 0]
            if never:
                raise MachineryError(f"vacuity: actions never taken in {module}/{cfg}: {never}")
        self.states += r.distinct
        self.transitions += r.generated
        self.mc.append({"module": module, "cfg": cfg, "distinct_states": r.distinct, "states_generated": r.generated,
                        "depth": r.depth, "wall_s": round(r.wall, 1),
                        "actions": {k: v[1] for k, v in cov.items()}})
        return r

    # ---- step 2: TLC writes the generated cases
    def generate(self, module: str, cfg: str, env=None, timeout=1800, heap="6g") -> list:
        out = self.tmp / f"gen-{module}-{len(self.mc)}-{random.getrandbits(32):08x}.ndjson"
        e = {"GEN_FILE": str(out)}
        e.update(env or {})
        r = run_tlc(module, cfg, workers=1, env=e, timeout=timeout, heap=heap)
        if r.rc != 0 or not out.exists():
            sys.stderr.write(r.out[-6000:])
            raise MachineryError(f"generation {module}/{cfg} failed (rc={r.rc})")
        cases = [json.loads(l) for l in out.read_text().splitlines() if l.strip()]
        out.unlink()
        return cases

    # ---- step 4: TLC validates observations of the real code
    def validate(self, module: str, cfg: str, obs: list[dict], shards: int | None = None, timeout=3600,
                 env=None, per_shard_min=40, heap="3g", group: str | None = None) -> list[dict]:
        """obs: list of dicts each with a unique 'id'. Returns verdict dicts {id, fails: [...], ...} in input order."""
        if not obs:
            return []
        n = len(obs)
        shards = shards or max(1, min(NCPU, n // per_shard_min or 1))
        if group is None:
            chunks = [obs[i::shards] for i in range(shards)]
        else:  # lines of one history stay together and in order
            order, groups = [], {}
            for o in obs:
                if o[group] not in groups:
                    groups[o[group]] = []
                    order.append(o[group])
                groups[o[group]].append(o)
            chunks = [[] for _ in range(shards)]
            for g in order:
                min(chunks, key=len).extend(groups[g])
            chunks = [c for c in chunks if c]
            shards = len(chunks)
        tag = f"{random.getrandbits(32):08x}"

        def one(i):
            tf = self.tmp / f"obs-{module}-{tag}-{i}.ndjson"
            of = self.tmp / f"ver-{module}-{tag}-{i}.ndjson"
            with open(tf, "w") as f:
                for o in chunks[i]:
                    f.write(json.dumps(o, separators=(",", ":")) + "\n")
            e = {"TRACE_FILE": str(tf), "OUT_FILE": str(of)}
            e.update(env or {})
            r = run_tlc(module, cfg, workers=1, env=e, timeout=timeout, heap=heap)
            if r.rc != 0 or not of.exists() or "No error has been found" not in r.out:
                errs = [ln for ln in r.out.splitlines() if "rror" in ln or "line " in ln][:12]
                raise MachineryError("\n".join(errs) + f"\ntrace validation {module}/{cfg} shard {i} failed (rc={r.rc}); "
                                     f"trace kept at {tf}")
            vs = [json.loads(l) for l in of.read_text().splitlines() if l.strip()]
            if len(vs) != len(chunks[i]):
                raise MachineryError(f"trace validation {module}: {len(vs)} verdicts for {len(chunks[i])} lines")
            tf.unlink()
            of.unlink()
            return vs, r.distinct

        t0 = time.time()
        with cf.ThreadPoolExecutor(max_workers=shards) as ex:
            res = list(ex.map(one, range(shards)))
        self.notes["validate_wall_s"] = round(self.notes.get("validate_wall_s", 0) + time.time() - t0, 1)
        by_id = {}
        for vs, _ in res:
            for v in vs:
                by_id[v["id"]] = v
        self.notes["trace_states"] = self.notes.get("trace_states", 0) + sum(d for _, d in res)
        return [by_id[o["id"]] for o in obs]

    # ---- streaming variant of step 5 for runs too large to keep every observation in memory
    def stream_begin(self):
        self._st = {"n": 0, "keys": set(), "viol": [], "known": {}, "samples": []}

    def stream_add(self, results, nontrivial, finding_key=None):
        findings = [f for f in load_findings() if f["property"] == self.pid]
        open_keys = {f["key"] for f in findings if f.get("status") == "open"}
        st = self._st
        for o, v in results:
            st["n"] += 1
            k = nontrivial(o)
            if k is not None:
                st["keys"].add(hash(k))
            if v.get("fails"):
                key = finding_key(o, v) if finding_key else None
                if key is not None and key in open_keys:
                    st["known"][key] = st["known"].get(key, 0) + 1
                elif len(st["viol"]) < 5000:
                    st["viol"].append((o, v))
                else:
                    st["viol_more"] = st.get("viol_more", 0) + 1

    def stream_finish(self, rule, samples, extra_cov=None, level="model_checking"):
        st = self._st
        res = list(st["viol"])
        known_counts = st["known"]
        rc = self.finish(res, rule=rule, nontrivial=lambda o: None, samples=samples, level=level,
                         extra_cov=dict(extra_cov or {}, streamed=True), finding_key=None,
                         override={"n": st["n"], "distinct": len(st["keys"]), "known": known_counts,
                                   "more": st.get("viol_more", 0)})
        return rc

    # ---- step 5: verdicts -> exit code, evidence
    def finish(self, results: list[tuple[dict, dict]], rule: str, nontrivial, samples: list, level="model_checking",
               extra_cov: dict | None = None, finding_key=None, exhaustive=False, override=None) -> int:
        """results: list of (observation, verdict). `nontrivial(obs)` -> hashable key or None.
        `finding_key(obs, verdict)` -> key string of a known-finding shape or None."""
        findings = [f for f in load_findings() if f["property"] == self.pid]
        open_keys = {f["key"]: f for f in findings if f.get("status") == "open"}
        violations, known = [], {}
        for o, v in results:
            fails = list(v.get("fails", []))
            if not fails:
                continue
            key = finding_key(o, v) if finding_key else None
            if key is not None and key in open_keys:
                known.setdefault(key, []).append(o)
                continue
            violations.append((o, v))
        for key, lst in known.items():
            print(f"KNOWN-FINDING: property={self.pid} {key}: {open_keys[key]['what']} ({len(lst)} cases this run)")
        if override:
            for key, cnt in override["known"].items():
                print(f"KNOWN-FINDING: property={self.pid} {key}: {open_keys[key]['what']} ({cnt} cases this run)")
        vf = OUT / f"{self.pid}_violations.ndjson"
        if vf.exists():
            vf.unlink()
        if violations:
            with open(vf, "w") as f:
                for o, v in violations[:5000]:
                    f.write(json.dumps({"o": o, "v": v}) + "\n")
        shown = 0
        seen_sig = set()
        for o, v in violations:
            sig = tuple(v.get("fails", []))
            if sig in seen_sig and shown >= 5:
                continue
            seen_sig.add(sig)
            if shown >= 12:
                break
            h = hashlib.sha1(json.dumps(o, sort_keys=True).encode()).hexdigest()[:10]
            path = OUT / f"{self.pid}_{h}.json"
            path.write_text(json.dumps({"property": self.pid, "observation": o, "verdict": v}, indent=1))
            print(f"VIOLATION property={self.pid} replay={path} failed={','.join(v.get('fails', []))}")
            shown += 1
        distinct = set()
        for o, _ in results:
            k = nontrivial(o)
            if k is not None:
                distinct.add(k)
        nres = override["n"] if override else len(results)
        ndist = override["distinct"] if override else len(distinct)
        cov = {
            "states": self.states, "transitions": self.transitions,
            "traces_validated_against_impl": nres,
            "evaluations": nres, "distinct_nontrivial": ndist, "rule": rule,
            "samples": samples[:4], "model_checks": self.mc, "exhaustive": exhaustive,
            "known_finding_cases": dict({k: len(v) for k, v in known.items()}, **(override["known"] if override else {})),
        }
        cov.update(self.notes)
        cov.update(extra_cov or {})
        ev = {"property_id": self.pid, "tier": self.tier, "seed": self.seed, "level": level, "coverage": cov,
              "assumptions": self.assumptions, "wall_s": round(time.time() - self.t0, 1),
              "violations": len(violations)}
        evdir = EVIDENCE if not self.pid.startswith("X") else EVIDENCE / "extensions"
        evdir.mkdir(exist_ok=True)
        (evdir / f"{self.pid}.json").write_text(json.dumps(ev, indent=1, default=str))
        nknown = sum(len(v) for v in known.values()) + (sum(override["known"].values()) if override else 0)
        print(f"{self.pid}: tier={self.tier} seed={self.seed} model states={self.states} "
              f"validated={nres} nontrivial={ndist} violations={len(violations) + (override['more'] if override else 0)} "
              f"known={nknown} wall={ev['wall_s']}s")
        return 1 if violations else 0
