"""C14: transposition of sequences and bars.  Initial states of Transpose.tla (piece x interval) are executed on real
objects (Sequence.transpose and Bar.transpose); TLC judges every observation (Trace_Transpose)."""
import json

from harness import core, project as P
from harness.common import pmap, build, via, doubled

core.import_scoda()
from scoda.elements.bar import Bar  # noqa: E402
from scoda.misc.music_theory import Key  # noqa: E402

BAR_KEYS = [None, "C", "F#", "Cb", "Eb"]


def kname(k):
    if k is None:
        return ""
    return k.value if isinstance(k, Key) else f"?{k!r}"


def execute(case):
    idx, kind, score, i, key = case
    # every fifth sequence case: the score played twice by concatenating one object with itself (shared Message objects)
    if "rel" in score:
        seq = P.seq_from_rel(score["rel"])        # a raw relative list (re-strikes before release, not normalised)
    else:
        seq = doubled(score, via(idx)) if (kind == "seq" and idx % 5 == 4) else build(score, via(idx))
    line = {"kind": kind, "i": i, "kin": "", "kout": "", "flag": False,
            "back": {"done": False, "rel": [], "flag": False}, "case": {"kind": kind, "score": score, "i": i, "key": key}}
    try:
        if kind == "bar":
            tsig = [m for m in score.get("extras", []) if m["ty"] == "ts"]
            num, den = (tsig[0]["n"], tsig[0]["d"]) if tsig else (4, 4)
            obj = Bar(seq, num, den, Key(key) if key else None)
            target = obj.sequence
            line["kin"] = kname(obj.key_signature)
        else:
            obj = target = seq
        if idx % 6 == 5:
            # history: the object was transposed before (and back); the judged call starts from what it holds now
            obj.transpose(2)
            obj.transpose(-2)
            if kind == "bar":
                line["kin"] = kname(obj.key_signature)
        if kind == "seq" and idx % 6 == 2:
            # history: the sequence was transposed before (by nothing / a semitone and back) and a passage reaching both limits
            # of the playable range was appended since (concatenate); the judged call starts from what it holds now
            obj.transpose(0) if idx % 4 < 2 else (obj.transpose(1), obj.transpose(-1))
            tail = P.seq_from_rel([P.on(-1, 0, 107, 70), P.wait(2), P.off(-1, 0, 107), P.on(-1, 0, 22, 70), P.wait(2), P.off(-1, 0, 22),
                                   P.on(-1, 0, 108, 70), P.on(-1, 0, 21, 70), P.wait(3), P.off(-1, 0, 108), P.off(-1, 0, 21)])
            obj.concatenate([tail])
        line["pre"] = P.views(target)
        flag = obj.transpose(i)
        line["flag"] = bool(flag)
        line["post"] = P.views(target)
        if kind == "bar":
            line["kout"] = kname(obj.key_signature)
        if not flag:
            import copy
            b = copy.deepcopy(obj)
            bf = b.transpose(-i)
            bt = b.sequence if kind == "bar" else b
            line["back"] = {"done": True, "rel": P.raw_rel(bt), "flag": bool(bf)}
    except Exception as e:
        line.setdefault("pre", {"readable": True, "abs": [], "rel": []})
        line["post"] = {"readable": False, "abs": [], "rel": [], "err": f"{type(e).__name__}: {e}"}
    return line


def run(ctx):
    if ctx.replay:
        c = json.load(open(ctx.replay))["observation"]["case"]
        cases = [(0, c["kind"], c["score"], c["i"], c["key"]), (1, c["kind"], c["score"], c["i"], c["key"])]
    else:
        ctx.model_check("MC_Transpose", "MC_Transpose.cfg", env={"VERIF_TIER": ctx.tier},
                        expect_actions=["DoNote", "DoKey", "DoOther"], coverage=False)
        g = ctx.generate("Gen_Transpose", "Gen_Transpose.cfg", env={"VERIF_TIER": ctx.tier})[0]
        cases = []
        for sc in g["scores"]:
            for i in g["shifts"]:
                cases.append((len(cases), "seq", sc, i, None))
                cases.append((len(cases), "bar", sc, i, BAR_KEYS[len(cases) % len(BAR_KEYS)]))
        # seeded random larger pieces and arbitrary intervals
        for _ in range(20000 if ctx.thorough else 2000):
            n = ctx.rng.randint(1, 8)
            wide = ctx.rng.random() < .3
            notes, t = [], 0
            for _ in range(n):
                s = t + ctx.rng.choice([0, 2, 4])
                e = s + ctx.rng.choice([2, 4, 8])
                pool = [21, 23, 30, 59, 60, 61, 100, 106, 108]
                if wide:   # legal MIDI pitches outside the playable range: the source itself may have to be moved by octaves
                    pool = pool + [0, 5, 16, 20, 109, 115, 127]
                notes.append({"ch": 0, "p": ctx.rng.choice(pool), "s": s, "e": e, "v": ctx.rng.choice([30, 80, 127])})
                t = e
            # distinct pitches may overlap in time, equal pitches never do (sequential construction)
            keys = [k.value for k in Key]
            r = ctx.rng.random()
            iv = ctx.rng.randint(-130, 130) if not wide else ctx.rng.choice([0, 1, -1, 2, -3, 5, 12, -12, 30, -30])
            if r < .45:
                extras = [P.ks(0, ctx.rng.choice(keys))]
            elif r < .7 and t > 4:
                # a modulation: several key signatures, the interval of the call often the one between two of them
                k1 = Key(ctx.rng.choice(keys))
                step = ctx.rng.choice([1, 2, -2, 5, 7, -5, 3])
                k2 = Key.transpose_key(k1, step)
                extras = [P.ks(0, k1.value), P.ks(ctx.rng.choice([2, 4, t]), k2.value)]
                if ctx.rng.random() < .4:
                    extras.append(P.ks(t, Key.transpose_key(k2, step).value))
                if ctx.rng.random() < .7:
                    iv = ctx.rng.choice([step, -step, step + 12, 2 * step])
            else:
                extras = []
            sc = {"notes": notes, "extras": extras, "dur": min(96, t)}
            if t > 96:
                continue
            kind = ctx.rng.choice(["seq", "bar"])
            cases.append((len(cases), kind, sc, iv, ctx.rng.choice(BAR_KEYS) if kind == "bar" else None))
    if not ctx.replay:
        alpha = [P.on(-1, 0, 60, 80), P.on(-1, 0, 60, 60), P.off(-1, 0, 60), P.on(-1, 0, 67, 70), P.off(-1, 0, 67), P.wait(12), P.wait(24),
                 P.on(-1, 1, 60, 50), P.off(-1, 1, 60)]
        for _ in range(6000 if ctx.thorough else 800):
            rel = [dict(ctx.rng.choice(alpha)) for _ in range(ctx.rng.randint(3, 10))]
            cases.append((len(cases), "seq", {"rel": rel}, ctx.rng.choice([1, -1, 2, 5, -7, 12, 30]), None))
    if ctx.fixtures and not ctx.replay:
        from harness import fixtures
        for sc in fixtures.slices("quantised"):
            for i in (1, -3, 12, 30, -40, 87):
                cases.append((len(cases), "seq", {k: sc[k] for k in ("notes", "extras", "dur")}, i, None))
    obs = pmap(execute, cases)
    for i, o in enumerate(obs):
        o["id"] = i
    slim = [{k: v for k, v in o.items() if k != "case"} for o in obs]
    ver = ctx.validate("Trace_Transpose", "Trace_Transpose.cfg", slim)

    def nontrivial(o):
        if not o["pre"]["rel"]:
            return None
        return (o["kind"], o["i"], o["kin"], json.dumps(o["pre"]["rel"]))

    wrapped = sum(1 for o in obs if o["flag"])
    if not ctx.replay and (wrapped == 0 or wrapped == len(obs)):
        raise core.MachineryError("vacuity: wrap / no-wrap cases not both present")
    samples = [{k: o[k] for k in ("kind", "i", "flag", "kin", "kout")} | {"pre_rel": o["pre"]["rel"][:5]} for o in obs[::max(1, len(obs) // 3)]][:3]
    return ctx.finish(list(zip(obs, ver)),
                      rule="initial states of Transpose.tla: every generated piece (<=2 notes at and near both range limits, "
                           "key-signature sets) x 19 intervals, as Sequence and as Bar (5 bar keys), plus seeded random "
                           "pieces with intervals in -130..130; non-trivial = distinct (kind, interval, bar key, non-empty piece)",
                      nontrivial=nontrivial, samples=samples, extra_cov={"cases_with_octave_wrap": wrapped})
