"""C11: tick values stay integers.  Every history of operations of TickTypes.tla (all of length <= 2, thorough 3, plus
seeded random longer ones) is executed on integer-tick inputs; after each operation the Python type of every time value
in both views of every live sequence, and the numeric fields of emitted tokens, are logged; TLC judges."""
import copy
import itertools
import json
import os
import tempfile

from harness import core, project as P
from harness.common import pmap
from harness import drive_testlog

core.import_scoda()
from scoda.elements.bar import Bar  # noqa: E402
from scoda.elements.composition import Composition  # noqa: E402
from scoda.elements.track import Track  # noqa: E402
from scoda.sequences.sequence import Sequence  # noqa: E402
from scoda.misc import util as U  # noqa: E402
from scoda.tokenisation.notelike_tokenisation import MultiTrackLargeVocabularyNotelikeTokeniser as Tokeniser  # noqa: E402

TMPDIR = None
FAMILIES = [
    # tracks of unequal length, last bar partly filled, a note cut by the bar line
    [P.notes_to_abs([(0, 60, 0, 24, 80), (0, 62, 84, 108, 70), (0, 64, 120, 132, 60)], [P.ts(0, 4, 4)]),
     P.notes_to_abs([(0, 48, 12, 36, 80)], [])],
    # short single track, bar needs padding; signature change
    [P.notes_to_abs([(0, 60, 6, 18, 80), (0, 67, 72, 90, 64), (0, 65, 100, 109, 50)], [P.ts(0, 3, 4), P.ts(72, 4, 4), P.ks(0, "G")])],
    # with an empty track and a trailing rest
    [P.notes_to_abs([(0, 72, 0, 12, 100), (0, 72, 12, 48, 100)], [P.ts(0, 4, 4)], dur=150), [], P.notes_to_abs([(0, 50, 30, 42, 30)], [])],
    # long beats: 3/2 then 2/1, material across the bar lines (144, 336)
    [P.notes_to_abs([(0, 60, 0, 24, 80), (0, 62, 150, 174, 70), (0, 64, 300, 324, 60), (0, 65, 340, 364, 60)], [P.ts(0, 3, 2), P.ts(144, 2, 1)])],
    # short beats: 5/8 then 7/16, bars of 60 and 42 ticks, second track shorter
    [P.notes_to_abs([(0, 60, 6, 18, 80), (0, 67, 54, 66, 64), (0, 65, 100, 112, 50), (0, 65, 130, 139, 50)], [P.ts(0, 5, 8), P.ts(60, 7, 16)]),
     P.notes_to_abs([(0, 40, 0, 36, 90)], [])],
    # 2/2 and 12/8
    [P.notes_to_abs([(0, 55, 10, 34, 80), (0, 57, 90, 126, 70), (0, 59, 200, 218, 60)], [P.ts(0, 2, 2), P.ts(96, 12, 8)], dur=250)],
    # a note that is never released (a truncated recording) in the second bar, next to a closed one
    [P.notes_to_abs([(0, 60, 0, 24, 80), (0, 62, 100, 112, 70)], [P.ts(0, 4, 4)]) + [P.on(108, 0, 64, 70)],
     P.notes_to_abs([(0, 48, 12, 36, 80)], [])],
]
OTHER = P.notes_to_abs([(0, 40, 4, 16, 64)], [])


def tmpfile():
    fd, name = tempfile.mkstemp(suffix=".mid", dir=TMPDIR)
    os.close(fd)
    return name


def literal_kind(s):
    t = s.lstrip("-")
    if t.isdigit():
        return "int"
    try:
        float(s)
        return "float"
    except ValueError:
        return "other"


def apply(world, op, tokinfo):
    """world: list of Sequences -> new world."""
    if op == "quantise":
        [s.quantise() for s in world]
    elif op == "quantise_note_lengths":
        [s.quantise_note_lengths() for s in world]
    elif op == "quantise_helper_grid":
        steps = U.get_default_step_sizes(upper_bound_shift=1, lower_bound_shift=1)
        [s.quantise(steps) for s in world]
    elif op == "note_lengths_helper_grid":
        normal = U.get_note_durations(4, 8)
        values = normal + U.get_tuplet_durations(normal, 3, 2) + U.get_dotted_note_durations(normal, 2)
        [s.quantise_note_lengths(values) for s in world]
    elif op == "normalise":
        [s.normalise() for s in world]
    elif op == "quantise_and_normalise":
        [s.quantise_and_normalise() for s in world]
    elif op == "pad":
        [s.pad(300) for s in world]
    elif op == "cutoff":
        [s.cutoff(24, 12) for s in world]
    elif op == "scale":
        [s.scale(2, quantise_afterwards=False) for s in world]
    elif op == "scale_identity":
        [s.scale(1, quantise_afterwards=(i % 2 == 0)) for i, s in enumerate(world)]
    elif op == "scale_requantise":
        [s.scale(2) for s in world]
    elif op == "transpose":
        [s.transpose(3) for s in world]
    elif op == "transpose_wrap":
        [s.transpose(70) for s in world]
    elif op == "set_channel":
        [s.set_channel(1) for s in world]
    elif op == "merge":
        world[0].merge(world[1:] + [P.seq_from_abs(OTHER)])
        return [world[0]]
    elif op == "concatenate":
        world[0].concatenate(world[1:] + [P.seq_from_abs(OTHER)])
        return [world[0]]
    elif op == "split_rejoin":
        out = []
        for s in world:
            j = Sequence()
            j.concatenate(s.split([50, 70]))
            out.append(j)
        return out
    elif op == "copy":
        return [s.copy() for s in world]
    elif op == "bar_construct":
        out = []
        for s in world:
            pieces = s.split([96])
            first = pieces[0] if pieces else Sequence()
            sig = [m for m in first.rel._messages if m.numerator is not None]
            n, d = (sig[0].numerator, sig[0].denominator) if sig else (4, 4)
            first = first.split([n * 96 // d])[0] if sig else first
            out.append(Bar(first, n, d).sequence)
        return out
    elif op in ("bars_roundtrip", "bars_roundtrip_requantise"):
        bars = Sequence.sequences_split_bars(world, 0, quantise_note_lengths=(op == "bars_roundtrip_requantise"))
        return [Bar.to_sequence(tb) for tb in bars]
    elif op == "bars_edit_rejoin":
        bars = Sequence.sequences_split_bars(world, 0, quantise_note_lengths=False)
        for tb in bars:
            for b in tb:
                b.sequence.cutoff(12, 12)
        return [Track(tb).to_sequence() if i % 2 else Bar.to_sequence(tb) for i, tb in enumerate(bars)]
    elif op == "composition_roundtrip":
        return Composition.from_sequences(world).to_sequences()
    elif op == "token_roundtrip":
        ws = [s.copy() for s in world]
        [s.quantise_and_normalise() for s in ws]
        bars = Sequence.sequences_split_bars(ws, 0)
        tok = Tokeniser(num_tracks=len(ws))
        state, tokens = dict(), []
        for group in zip(*bars):
            tokens.extend(tok.tokenise([b.sequence for b in group], state_dict=state))
        for t in tokens:
            for part in t.split("-"):
                for f in part.split("_")[1:]:
                    tokinfo["kinds"].add(literal_kind(f))
            if t not in tok.dictionary:
                tokinfo["inVocab"] = False
        return tok.detokenise(tokens)
    elif op == "token_roundtrip_unfused_tail":
        ws = [s.copy() for s in world]
        [s.quantise_and_normalise() for s in ws]
        bars = Sequence.sequences_split_bars(ws, 0)
        tok = Tokeniser(num_tracks=len(ws), flag_fuse_track=False, flag_fuse_value=False, flag_fuse_velocity=False)
        state, calls = dict(), []
        for group in zip(*bars):
            calls.append(tok.tokenise([b.sequence for b in group], state_dict=state))
        for t in [t for c in calls for t in c]:
            for part in t.split("-"):
                for f in part.split("_")[1:]:
                    tokinfo["kinds"].add(literal_kind(f))
            if t not in tok.dictionary:
                tokinfo["inVocab"] = False
        # the tokens of the later calls are a legal stream of their own (it starts without value / velocity / track tokens)
        return tok.detokenise([t for c in calls[(1 if len(calls) > 1 else 0):] for t in c])
    elif op in ("token_roundtrip_plain", "token_roundtrip_plain_ppqn48"):
        # plain sequences (no bars, signature messages removed): the stream then has bar tokens before any signature token
        ws = []
        for s in world:
            c = s.copy()
            c.quantise_and_normalise()
            c.overwrite_relative_messages([m for m in c.rel._messages if m.numerator is None])
            ws.append(c)
        tok = Tokeniser(num_tracks=len(ws)) if op == "token_roundtrip_plain" else Tokeniser(num_tracks=len(ws), ppqn=48)
        tokens = tok.tokenise(ws)
        for t in tokens:
            for part in t.split("-"):
                for f in part.split("_")[1:]:
                    tokinfo["kinds"].add(literal_kind(f))
            if t not in tok.dictionary:
                tokinfo["inVocab"] = False
        return tok.detokenise(tokens)
    elif op == "load_coarse_file":
        # a file coarser than the library resolution (12 ticks per quarter): every file tick is two library ticks
        import mido
        path = tmpfile()
        try:
            mf = mido.MidiFile(ticks_per_beat=12)
            for s in world:
                tr, last = mido.MidiTrack(), 0
                for m in P.raw_abs(s):
                    T = m["t"] // 2
                    if m["ty"] == "on":
                        tr.append(mido.Message("note_on", note=m["p"], velocity=max(1, m["v"]), channel=m["ch"], time=T - last))
                    elif m["ty"] == "off":
                        tr.append(mido.Message("note_off", note=m["p"], velocity=0, channel=m["ch"], time=T - last))
                    elif m["ty"] == "ts":
                        tr.append(mido.MetaMessage("time_signature", numerator=m["n"], denominator=m["d"], time=T - last))
                    elif m["ty"] == "pc":
                        tr.append(mido.Message("program_change", program=m["p"], channel=m["ch"], time=T - last))
                    else:
                        continue
                    last = T
                mf.tracks.append(tr)
            mf.save(path)
            return Sequence.sequences_load(file_path=path)
        finally:
            os.unlink(path)
    elif op == "save_load":
        path = tmpfile()
        try:
            Sequence.sequences_save(world, path)
            return Sequence.sequences_load(file_path=path)
        finally:
            os.unlink(path)
    else:
        raise core.MachineryError(op)
    return world


def execute(case):
    idx, fam, ops = case
    world = [P.seq_from_abs(ms) if (idx + i) % 2 == 0 else P.seq_from_rel(P.abs_to_rel(ms)) for i, ms in enumerate(FAMILIES[fam])]
    lines, first = [], True
    for op in ops:
        tokinfo = {"kinds": set(), "inVocab": True}
        raised = ""
        try:
            world = apply(world, op, tokinfo)
        except core.MachineryError:
            raise
        except Exception as e:
            raised = f"{type(e).__name__}: {e}"
        kinds, readable = set(), True
        if not raised:
            for s in world:
                v = P.views(s, kinds)
                readable = readable and v["readable"]
        lines.append({"grp": idx, "first": first, "op": op, "kinds": sorted(kinds), "tokenKinds": sorted(tokinfo["kinds"]),
                      "tokensInVocab": tokinfo["inVocab"], "readable": readable, "raised": raised,
                      "case": {"family": fam, "ops": ops}})
        first = False
        if raised:
            break
    return lines


def run(ctx):
    global TMPDIR
    TMPDIR = str(ctx.tmp)
    if ctx.replay and json.load(open(ctx.replay))["observation"].get("kind") == "log":
        lobs, lver, lcov = drive_testlog.run_ticks(ctx, replay_obs=json.load(open(ctx.replay))["observation"])
        return ctx.finish(list(zip(lobs, lver)), rule="replay of one repository test under the call recorder",
                          nontrivial=lambda o: drive_testlog.nontrivial(o), samples=[], extra_cov=lcov)
    if ctx.replay:
        c = json.load(open(ctx.replay))["observation"]["case"]
        cases = [(0, c["family"], c["ops"]), (1, c["family"], c["ops"])]
    else:
        ctx.model_check("MC_TickTypes", "MC_TickTypes.cfg", env={"VERIF_TIER": ctx.tier}, expect_actions=["Do"])
        d = core.run_tlc("MC_TickTypes", "MC_TickTypes_d1.cfg", workers=2, env={"VERIF_TIER": "quick"})
        if "Invariant IntOnly is violated" not in d.out:
            raise core.MachineryError("self-test: defect switch BarPadTrueDivision no longer violates IntOnly")
        g = ctx.generate("Gen_TickTypes", "Gen_TickTypes.cfg", env={"VERIF_TIER": ctx.tier})[0]
        ops, k = sorted(g["ops"]), g["maxLen"]
        cases = []
        for n in range(1, k + 1):
            for h in itertools.product(ops, repeat=n):
                fams = range(len(FAMILIES)) if n <= 2 else [len(cases) % len(FAMILIES)]
                for f in fams:
                    cases.append((len(cases), f, list(h)))
        for _ in range(6000 if ctx.thorough else 600):
            cases.append((len(cases), ctx.rng.randrange(len(FAMILIES)), [ctx.rng.choice(ops) for _ in range(ctx.rng.randint(k + 1, 8))]))
    res = pmap(execute, cases, chunk=50)
    obs = [ln for lines in res for ln in lines]
    for i, o in enumerate(obs):
        o["id"] = i
    slim = [{k: v for k, v in o.items() if k != "case"} for o in obs]
    ver = ctx.validate("Trace_TickTypes", "Trace_TickTypes.cfg", slim, group="grp", per_shard_min=100)
    raised = sum(1 for o in obs if o["raised"])
    tok = sum(1 for o in obs if o["tokenKinds"])
    if not ctx.replay and (tok == 0 or raised > len(obs) // 3):
        raise core.MachineryError(f"vacuity: token steps={tok}, steps ending in an exception={raised} of {len(obs)}")

    def nontrivial(o):
        if o.get("kind") == "log":
            return drive_testlog.nontrivial(o) if o.get("known") else None
        if o["raised"]:
            return None
        return (o["case"]["family"], tuple(o["case"]["ops"]), o["op"], o["first"])

    import collections
    rz = collections.Counter(o["raised"].split(":")[0] + ":" + o["op"] for o in obs if o["raised"])
    samples = [{"family": o["case"]["family"], "history": o["case"]["ops"], "step": o["op"], "kinds": o["kinds"],
                "tokenKinds": o["tokenKinds"]} for o in obs[5::max(1, len(obs) // 3)]][:3]
    # the repository's own tests (a fast subset in the quick tier): every logged public call on an integer-tick object
    lcov = {}
    if not ctx.replay:
        lobs, lver, lcov = drive_testlog.run_ticks(ctx)
        lcov = {k.replace("repo_tests_", "repo_tests_ticks_"): v for k, v in lcov.items()}
    else:
        lobs, lver = [], []
    return ctx.finish(list(zip(obs, ver)) + list(zip(lobs, lver)),
                      rule="behaviours of TickTypes.tla: every history of <=2 (thorough 3) of its 23 operations on 6 integer-tick input "
                           "families (tracks of unequal length, bars needing padding, a note cut by a bar line, an empty track, "
                           "signature changes incl. beats longer and shorter than a quarter: 3/2, 2/1, 2/2, 5/8, 7/16, 12/8) + seeded random histories up to length 8; one line per executed step; non-trivial "
                           "= distinct (family, history, step) that did not end in an exception; plus every outermost public Sequence call "
                           "logged while the repository's own tests run (quick: five fast files; thorough: all), judged by "
                           "Trace_TickLog when the object held only integer times before and the arguments were integers",
                      nontrivial=nontrivial, samples=samples,
                      extra_cov=dict({"steps_with_tokens": tok, "steps_ending_in_exception": raised,
                                      "exceptions_by_kind": dict(rz.most_common(6))}, **lcov))
