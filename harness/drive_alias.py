"""C16: copies and derived sequences are independent values.  Derivation route x operated side x operation history
(the behaviours of Alias.tla) are executed on real objects; both views of every sequence of both sides are read on deep
copies before and after; TLC (Trace_Alias) judges."""
import copy
import itertools
import json

from harness import core, project as P
from harness.common import pmap

core.import_scoda()
from scoda.elements.bar import Bar  # noqa: E402
from scoda.elements.composition import Composition  # noqa: E402
from scoda.elements.track import Track  # noqa: E402
from scoda.enumerations.message_type import MessageType  # noqa: E402
from scoda.misc.music_theory import Key  # noqa: E402
from scoda.sequences.sequence import Sequence  # noqa: E402

CONTENTS = [
    P.notes_to_abs([(0, 60, 0, 12, 80), (0, 64, 24, 36, 70), (0, 60, 90, 114, 60), (0, 67, 120, 144, 50)],
                   [P.ts(0, 4, 4), P.ks(0, "D")], dur=192),
    P.notes_to_abs([(0, 50, 6, 30, 90), (0, 52, 48, 120, 40), (0, 55, 150, 156, 30)], [P.ts(0, 4, 4)], dur=192),
    P.notes_to_abs([(0, 72, 0, 24, 100), (0, 74, 24, 48, 100), (0, 76, 96, 108, 100)], [], dur=150),
    P.notes_to_abs([(0, 65, 3, 30, 90)], []),        # shorter than one bar
    # first signature only at the second bar
    P.notes_to_abs([(0, 60, 0, 24, 80), (0, 62, 96, 120, 70)], [P.ts(96, 3, 4), P.ks(96, "A")], dur=168),
]
# a legal original that is not in normal form (relative messages): a note still sounding at the end, a note-off that
# closes nothing, a pitch struck twice before release, a repeated key signature
RAW_REL = [P.ks(-1, "G"), P.on(-1, 0, 60, 80), P.wait(24), P.off(-1, 0, 50), P.on(-1, 0, 60, 70), P.wait(24), P.off(-1, 0, 60),
           P.ks(-1, "G"), P.wait(48), P.off(-1, 0, 60), P.on(-1, 0, 69, 60), P.wait(96)]
PRE = {}
SECOND = P.notes_to_abs([(0, 40, 0, 24, 64), (0, 43, 100, 124, 64)], [], dur=192)
NOTELESS = P.notes_to_abs([], [P.ts(0, 4, 4), P.ks(0, "D"), P.cc(5, 64, 100)], dur=192)
OTHER = P.notes_to_abs([(0, 67, 2, 9, 75)], [], dur=12)

IN_PLACE = ["set_channel", "transpose", "scale", "iter_edit_rel", "iter_edit_abs", "bar_transpose"]
# operations that take the OTHER side as their argument: afterwards the two sides must still be independent
WITH_OTHER = ["merge_other", "concatenate_other"]
STRUCTURAL = ["normalise", "pad", "quantise", "quantise_note_lengths", "cutoff", "add_relative_message", "add_absolute_message",
              "merge", "concatenate", "overwrite_relative_messages", "quantise_and_normalise", "transpose_wrap"]


def seqs_of(obj):
    if isinstance(obj, Sequence):
        return [obj]
    if isinstance(obj, Bar):
        return [obj.sequence]
    if isinstance(obj, Track):
        return [b.sequence for b in obj.bars]
    if isinstance(obj, Composition):
        return [b.sequence for t in obj.tracks for b in t.bars]
    raise core.MachineryError(type(obj))


def bars_of(obj):
    if isinstance(obj, Bar):
        return [obj]
    if isinstance(obj, Track):
        return list(obj.bars)
    if isinstance(obj, Composition):
        return [b for t in obj.tracks for b in t.bars]
    return []


def content(obj):
    return [P.views(s) for s in seqs_of(obj)]


def apply_op(obj, op, other=None):
    if op in WITH_OTHER:
        for s, o in zip(seqs_of(obj), seqs_of(other)):
            if op == "merge_other":
                s.merge([o])
            else:
                s.concatenate([o])
        return
    if op == "bar_transpose" and bars_of(obj):
        for b in bars_of(obj):
            b.transpose(3)
        return
    for s in seqs_of(obj):
        if op == "set_channel":
            s.set_channel(3)
        elif op in ("transpose", "bar_transpose"):
            s.transpose(2)
        elif op == "transpose_wrap":
            s.transpose(70)
        elif op == "scale":
            s.scale(2, quantise_afterwards=False)
        elif op == "iter_edit_rel":
            for m in s.messages_rel():
                if m.message_type in (MessageType.NOTE_ON, MessageType.NOTE_OFF):
                    m.note += 12
        elif op == "iter_edit_abs":
            for m in s.messages_abs():
                if m.message_type == MessageType.NOTE_ON:
                    m.velocity = 11
        elif op == "normalise":
            s.normalise()
        elif op == "pad":
            s.pad(400)
        elif op == "quantise":
            s.quantise([8])
        elif op == "quantise_note_lengths":
            s.quantise_note_lengths([6, 12])
        elif op == "cutoff":
            s.cutoff(12, 6)
        elif op == "add_relative_message":
            s.add_relative_message(P.mk(P.wait(5)))
        elif op == "add_absolute_message":
            s.add_absolute_message(P.mk(P.cc(7, 64, 1)))
        elif op == "merge":
            s.merge([P.seq_from_abs(OTHER)])
        elif op == "concatenate":
            s.concatenate([P.seq_from_abs(OTHER)])
        elif op == "overwrite_relative_messages":
            s.overwrite_relative_messages([P.mk(m) for m in P.abs_to_rel(OTHER)])
        elif op == "quantise_and_normalise":
            s.quantise_and_normalise([8], [6, 12, 24])
        else:
            raise core.MachineryError(op)


def derive(route, ci, via):
    mk = (lambda ms: P.seq_from_abs(ms)) if via == "abs" else (lambda ms: P.seq_from_rel(P.abs_to_rel(ms)))
    if ci == len(CONTENTS):
        seq = P.seq_from_rel(RAW_REL)
        if via == "abs":
            seq.refresh()
    else:
        seq = mk(CONTENTS[ci])
    PRE["content"] = content(seq)          # the original before anything is derived from it
    if route == "seq_copy":
        return seq, seq.copy()
    if route == "seq_copy_doubled":
        # the original holds every Message object twice (a sequence concatenated with itself); its copy is independent
        x = Sequence()
        x.concatenate([seq, seq])
        if ci % 2:
            x.refresh()
        return x, x.copy()
    short = ci < len(CONTENTS) and CONTENTS[ci] and max(m["t"] for m in CONTENTS[ci]) < 96
    if route == "bar_copy":
        first = seq.split([96])[0]
        bar = Bar(first.copy(), 4, 4, Key("D"))
        return bar, bar.copy()
    if route == "track_copy":
        tr = Track(Sequence.sequences_split_bars([seq], 0)[0], name="t")
        return tr, tr.copy()
    if route == "composition_copy":
        # the third track holds no note (a conductor track: signatures and a rest)
        comp = Composition.from_sequences([seq, mk(SECOND), mk(NOTELESS)])
        return comp, comp.copy()
    if route == "split_first":
        return seq, seq.split([20 if short else 96])[0]
    if route == "split_second":
        return seq, seq.split([20 if short else 96])[1]
    if route in ("split_bars", "split_bars_requantise"):
        # the observed track next to a longer one (a track shorter than a bar is then not the last to end)
        longer = mk(SECOND)
        bars = Sequence.sequences_split_bars([seq, longer], 0, quantise_note_lengths=(route == "split_bars_requantise"))[0]
        return seq, bars[(ci + (route == "split_bars_requantise")) % len(bars)]
    if route in ("split_bars_second_track", "split_bars_second_track_requantise"):
        # the observed track is not the first of the call (the meta track is the other one)
        longer = mk(SECOND)
        # (an observed track that carries signatures of its own is the meta track)
        has_sigs = ci < len(CONTENTS) and any(m["ty"] == "ts" and m["t"] > 0 for m in CONTENTS[ci])
        bars = Sequence.sequences_split_bars([longer, seq], 1 if has_sigs else 0,
                                             quantise_note_lengths=route.endswith("requantise"))[1]
        return seq, bars[(ci + route.endswith("requantise")) % len(bars)]
    raise core.MachineryError(route)


def attrs(obj):
    if isinstance(obj, Bar):
        return ("bar", obj.time_signature_numerator, obj.time_signature_denominator, getattr(obj.key_signature, "value", None))
    if isinstance(obj, Track):
        return ("track", obj.name, obj.program, [attrs(b) for b in obj.bars])
    if isinstance(obj, Composition):
        return ("comp", [attrs(t) for t in obj.tracks])
    return ("seq",)


def shared_messages(a, b):
    ids = set()
    for s in seqs_of(a):
        for v in (getattr(s, "_abs", None), getattr(s, "_rel", None)):
            if v is not None:
                ids |= {id(m) for m in v._messages}
    n = 0
    for s in seqs_of(b):
        for v in (getattr(s, "_abs", None), getattr(s, "_rel", None)):
            if v is not None:
                n += sum(1 for m in v._messages if id(m) in ids)
    return n


def execute(case):
    idx, route, side, ops, ci = case
    line = {"route": route, "side": side, "ops": ops, "raised": "", "equalsApi": True, "attrsEqual": True, "shared": 0,
            "before": {"orig": [], "der": []}, "after": {"orig": [], "der": []}, "preDerive": [],
            "case": {"route": route, "side": side, "ops": ops, "content": ci}}
    try:
        orig, der = derive(route, ci, "abs" if idx % 2 == 0 else "rel")
        line["shared"] = shared_messages(orig, der)
        line["before"] = {"orig": content(orig), "der": content(der)}
        # deriving (splitting, bar splitting) must leave the original as it was
        line["preDerive"] = PRE["content"] if (isinstance(orig, Sequence) and route.startswith("split")) else []
        if route.endswith("_copy"):
            so, sd = seqs_of(orig), seqs_of(der)
            line["equalsApi"] = len(so) == len(sd) and all(a.equals(b) and b.equals(a) for a, b in zip(so, sd))
            line["attrsEqual"] = attrs(orig) == attrs(der)
        target, other = (der, orig) if side == "derived" else (orig, der)
        for op in ops:
            apply_op(target, op, other)
        line["after"] = {"orig": content(orig), "der": content(der)}
    except core.MachineryError:
        raise
    except Exception as e:
        line["raised"] = f"{type(e).__name__}: {e}"
    return line


F_CONCAT = "C16.concatenate-shares-argument-messages"


def finding_key(o, v):
    """Shape: the operated side concatenated the other side to itself and was then modified in place."""
    ops = o.get("ops", [])
    if "concatenate_other" in ops and set(v["fails"]) <= {"untouched-side-unchanged", "untouched-side-views-agree"}:
        later = ops[ops.index("concatenate_other") + 1:]
        if any(x in IN_PLACE for x in later):
            return F_CONCAT
    return None


def run(ctx):
    if ctx.replay:
        c = json.load(open(ctx.replay))["observation"]["case"]
        cases = [(0, c["route"], c["side"], c["ops"], c["content"]), (1, c["route"], c["side"], c["ops"], c["content"])]
    else:
        ctx.model_check("MC_Alias", "MC_Alias.cfg",
                        expect_actions=["DoReadAbs", "DoReadRel", "DoInPlace", "DoStructural", "DoStructuralAbs", "DoCopy", "DoSplit"])
        d = core.run_tlc("MC_Alias", "MC_Alias_d1.cfg", workers=4)
        if "is violated" not in d.out:
            raise core.MachineryError("self-test: defect switch SplitSharesCells no longer violates an invariant")
        g = ctx.generate("Gen_Alias", "Gen_Alias.cfg")[0]
        kinds = {"in_place": IN_PLACE, "structural": STRUCTURAL}
        allops = [o for k in g["kinds"] for o in kinds[k]]
        hist = [[o] for o in allops] + [[a, b] for a in allops for b in allops]
        # the other side as argument, then an in-place or structural operation on the operated side
        hist += [[w, b] for w in WITH_OTHER for b in IN_PLACE + ["quantise", "cutoff", "normalise"]]
        hist += [[a, w, b] for a in ("transpose", "set_channel") for w in WITH_OTHER for b in ("quantise", "transpose", "iter_edit_rel", "cutoff")]
        if ctx.thorough:
            hist += [[a, b, c] for a in IN_PLACE for b in allops for c in IN_PLACE]
        cases = []
        for route in g["routes"]:
            for side in g["sides"]:
                for k, h in enumerate(hist):
                    # (content number len(CONTENTS) is the original that is not in normal form)
                    cis = range(len(CONTENTS) + 1) if len(h) == 1 else [k % (len(CONTENTS) + 1)]
                    for ci in cis:
                        cases.append((len(cases), route, side, h, ci))
    obs = pmap(execute, cases, chunk=100)
    for i, o in enumerate(obs):
        o["id"] = i
    slim = [{k: v for k, v in o.items() if k != "case"} for o in obs]
    ver = ctx.validate("Trace_Alias", "Trace_Alias.cfg", slim, per_shard_min=60)
    shared = sum(1 for o in obs if o["shared"] > 0)

    def nontrivial(o):
        return (o["route"], o["side"], tuple(o["ops"]), o["case"]["content"])

    samples = [{"route": o["route"], "side": o["side"], "ops": o["ops"], "messages_shared_by_identity": o["shared"]}
               for o in obs[3::max(1, len(obs) // 3)]][:3]
    return ctx.finish(list(zip(obs, ver)),
                      rule="behaviours of Alias.tla (plus merge / concatenate with the other side as argument): 8 derivation routes (copy of sequence / bar / track / composition, split first / "
                           "second piece, bar splitting with either setting) x side operated on x every history of 1-2 operations "
                           "(thorough 3) over 6 in-place and 12 structural operations, 4 origin contents (one shorter than a bar), both construction routes; "
                           "non-trivial = distinct (route, side, history, content)",
                      nontrivial=nontrivial, samples=samples, finding_key=finding_key,
                      extra_cov={"cases_sharing_message_objects_by_identity": shared})
