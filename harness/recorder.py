"""Pytest plugin (`-p harness.recorder`, PYTHONPATH=/verif:<tree>): records every outermost public call on every
`Sequence` object made while the repository's own tests run - no source hooks, the class is wrapped at import time.

One ndjson line per call, written when the call returns (also on the error path):
  obj    small integer identity of the object            op     the abstract operation of SeqViews.tla that was realised
  new    first time the object is seen                    b0/b1  (absFresh, relFresh) before / after
  ca/cr  identity of the content each view denotes after the call (-1 = view stale); equal content <=> equal id
  raised exception class name or ""
Only cheap scalars are logged; content identities are digests of the canonical timed-event multiset plus duration.
"""
import functools
import itertools
import json
import os

from scoda.enumerations.message_type import MessageType
from scoda.sequences.sequence import Sequence

_OUT = None
_DEPTH = [0]
_VID = itertools.count(1)
_CIDS = {}
_SEQNO = itertools.count(0)
_LIMIT = int(os.environ.get("SCODA_TRACE_LIMIT", "400000"))
_BIG = int(os.environ.get("SCODA_TRACE_BIG", "300"))


def _bits(s):
    return [not s._abs_stale, not s._rel_stale]


def _cid(digest):
    return _CIDS.setdefault(digest, len(_CIDS) + 1)


def _fields(m):
    k = m.key
    return (m.message_type.value if m.message_type is not None else None, m.channel, m.note, m.velocity, m.control,
            m.program, m.numerator, m.denominator, getattr(k, "value", k))


_KINDS = set()


def _content_abs(s):
    evs, dur = [], 0
    for m in s._abs._messages:
        if m.time is not None:
            _KINDS.add(type(m.time).__name__)
        t = m.time if m.time is not None else 0
        dur = max(dur, t)
        if m.message_type != MessageType.INTERNAL:
            evs.append((t,) + _fields(m))
    return _cid(hash((tuple(sorted(evs, key=repr)), dur)))


def _content_rel(s):
    evs, c = [], 0
    for m in s._rel._messages:
        if m.time is not None:
            _KINDS.add(type(m.time).__name__)
        if m.message_type == MessageType.WAIT:
            c += m.time
        else:
            evs.append((c,) + _fields(m))
    return _cid(hash((tuple(sorted(evs, key=repr)), c)))


def _contents(s):
    # -1 = view stale, -2 = could not be read, -4 = too large to digest on every call (only the bits are then judged)
    try:
        ca = -1 if s._abs_stale else (-4 if len(s._abs._messages) > _BIG else _content_abs(s))
        cr = -1 if s._rel_stale else (-4 if len(s._rel._messages) > _BIG else _content_rel(s))
    except Exception:
        return -2, -2
    return ca, cr


def _ident(s):
    tag = s.__dict__.get("_verif_id")
    if tag is None or tag[1] != id(s):          # deep copies carry the attribute along: re-issue
        tag = (next(_VID), id(s))
        s.__dict__["_verif_id"] = tag
        return tag[0], True
    return tag[0], False


_GAP = set()


def _argkinds(a, kw):
    """type names of the numeric arguments of a call (lists one level deep)"""
    out = set()
    for x in list(a) + list(kw.values()):
        for y in (x if isinstance(x, (list, tuple)) else [x]):
            if isinstance(y, (int, float)) and not isinstance(y, bool) or type(y).__module__ == "numpy":
                out.add(type(y).__name__)
    return sorted(out)


def _emit(rec):
    """Lines beyond the limit, and additions to objects too large to digest (file loading adds thousands of messages one
    by one), are not written; the next written line of such an object says so (gap)."""
    if _OUT is None:
        return
    n = next(_SEQNO)
    if n >= _LIMIT or (rec["op"] in ("add_absolute_message", "add_relative_message") and -4 in (rec["ca"], rec["cr"])):
        _GAP.add(rec["obj"])
        return
    rec["n"] = n
    rec.setdefault("kinds", [])
    rec.setdefault("argKinds", [])
    rec["known"] = "kinds" in rec and -4 not in (rec["ca"], rec["cr"]) and -2 not in (rec["ca"], rec["cr"]) and rec.get("_k", False)
    rec.pop("_k", None)
    rec["gap"] = rec["obj"] in _GAP
    _GAP.discard(rec["obj"])
    _OUT.write(json.dumps(rec) + "\n")


def _wrap(name, fn, opname):
    @functools.wraps(fn)
    def inner(self, *a, **kw):
        if _DEPTH[0] > 0 or _OUT is None or not isinstance(self, Sequence) or "_rel_stale" not in self.__dict__ \
                or "_abs_stale" not in self.__dict__:            # (the constructor calls invalidate_* on a half-built object)
            return fn(self, *a, **kw)
        vid, new = _ident(self)
        b0 = _bits(self)
        c0 = _contents(self) if new else (-3, -3)
        _DEPTH[0] += 1
        raised, res = "", None
        try:
            res = fn(self, *a, **kw)
            return res
        except BaseException as e:
            raised = type(e).__name__
            raise
        finally:
            _DEPTH[0] -= 1
            op = opname(a, kw, res) if callable(opname) else opname
            _KINDS.clear()
            ca, cr = _contents(self)
            _emit({"obj": vid, "op": op, "new": new, "b0": b0, "b1": _bits(self), "ca0": c0[0], "cr0": c0[1], "ca": ca,
                   "cr": cr, "raised": raised, "test": os.environ.get("PYTEST_CURRENT_TEST", "").split(" ")[0],
                   "kinds": sorted(_KINDS), "argKinds": _argkinds(a, kw), "_k": True})
    return inner


def _wrap_prop(prop, opname):
    fget = prop.fget

    def getter(self):
        if _DEPTH[0] > 0 or _OUT is None:
            return fget(self)
        vid, new = _ident(self)
        b0 = _bits(self)
        c0 = _contents(self) if new else (-3, -3)
        _DEPTH[0] += 1
        raised = ""
        try:
            return fget(self)
        except BaseException as e:
            raised = type(e).__name__
            raise
        finally:
            _DEPTH[0] -= 1
            ca, cr = _contents(self)
            _emit({"obj": vid, "op": opname, "new": new, "b0": b0, "b1": _bits(self), "ca0": c0[0], "cr0": c0[1], "ca": ca,
                   "cr": cr, "raised": raised, "test": os.environ.get("PYTEST_CURRENT_TEST", "").split(" ")[0]})
    return property(getter)


def _wrap_gen(fn, view):
    """messages_abs()/messages_rel(): the start (first next) and the end of the generator are logged; calls made by the
    caller while the generator is suspended are ordinary outermost calls."""
    @functools.wraps(fn)
    def inner(self, *a, **kw):
        if _DEPTH[0] > 0 or _OUT is None:
            yield from fn(self, *a, **kw)
            return
        vid, new = _ident(self)
        b0 = _bits(self)
        c0 = _contents(self) if new else (-3, -3)
        g = fn(self, *a, **kw)
        started = False
        try:
            while True:
                _DEPTH[0] += 1
                try:
                    m = next(g)
                except StopIteration:
                    break
                finally:
                    _DEPTH[0] -= 1
                if not started:
                    started = True
                    ca, cr = _contents(self)
                    _emit({"obj": vid, "op": "iter_start_" + view, "new": new, "b0": b0, "b1": _bits(self), "ca0": c0[0],
                           "cr0": c0[1], "ca": ca, "cr": cr, "raised": "",
                           "test": os.environ.get("PYTEST_CURRENT_TEST", "").split(" ")[0]})
                yield m
        finally:
            b_before_close = _bits(self)
            _DEPTH[0] += 1
            try:
                g.close()
            finally:
                _DEPTH[0] -= 1
            if started:
                ca, cr = _contents(self)
                _emit({"obj": vid, "op": "iter_close", "new": False, "b0": b_before_close, "b1": _bits(self), "ca0": -3,
                       "cr0": -3, "ca": ca, "cr": cr, "raised": "",
                       "test": os.environ.get("PYTEST_CURRENT_TEST", "").split(" ")[0]})
    return inner


SAME = ["add_absolute_message", "add_relative_message", "concatenate", "cutoff", "equals", "merge", "normalise",
        "overwrite_absolute_messages", "overwrite_relative_messages", "pad", "set_channel", "split", "quantise",
        "quantise_note_lengths", "quantise_and_normalise", "get_message_pairings", "get_interleaved_message_pairings",
        "get_message_times_of_type", "get_sequence_channel", "get_sequence_duration", "get_sequence_duration_relation",
        "is_channel_consistent", "is_empty", "to_midi_track", "copy", "refresh", "invalidate_abs", "invalidate_rel"]


def install():
    for name in SAME:
        setattr(Sequence, name, _wrap(name, getattr(Sequence, name), name))
    Sequence.transpose = _wrap("transpose", Sequence.transpose, lambda a, kw, res: "transpose_wrap" if res else "transpose")

    def scale_op(a, kw, res):
        q = kw.get("quantise_afterwards", a[2] if len(a) > 2 else True)
        return "scale_requantise" if q else "scale"
    Sequence.scale = _wrap("scale", Sequence.scale, scale_op)
    Sequence.save = _wrap("save", Sequence.save, "to_midi_track")
    Sequence.abs = _wrap_prop(Sequence.__dict__["abs"], "read_abs")
    Sequence.rel = _wrap_prop(Sequence.__dict__["rel"], "read_rel")
    Sequence.messages_abs = _wrap_gen(Sequence.messages_abs, "abs")
    Sequence.messages_rel = _wrap_gen(Sequence.messages_rel, "rel")


def pytest_configure(config):
    global _OUT
    path = os.environ.get("SCODA_TRACE_FILE")
    if path:
        _OUT = open(path, "w")
        install()


def pytest_unconfigure(config):
    global _OUT
    if _OUT is not None:
        _OUT.close()
        _OUT = None
