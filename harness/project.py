"""Observation functions: real S-Coda objects -> abstract values of the specification.

A view is projected to the list of its raw messages; the specification (not Python) derives notes,
sounding sets, durations and so on. Reads never step the observed object: they are done on deep copies.
"""
from __future__ import annotations

import copy

from harness import core

core.import_scoda()

from scoda.elements.message import Message  # noqa: E402
from scoda.enumerations.message_type import MessageType  # noqa: E402
from scoda.exceptions.sequence_exception import SequenceException  # noqa: E402
from scoda.misc.music_theory import Key  # noqa: E402
from scoda.sequences.sequence import Sequence  # noqa: E402

TY = {
    MessageType.NOTE_ON: "on", MessageType.NOTE_OFF: "off", MessageType.WAIT: "wait",
    MessageType.TIME_SIGNATURE: "ts", MessageType.KEY_SIGNATURE: "ks", MessageType.CONTROL_CHANGE: "cc",
    MessageType.PROGRAM_CHANGE: "pc", MessageType.INTERNAL: "int", MessageType.SEQUENCE_CONTROL: "sc",
}
YT = {v: k for k, v in TY.items()}


def _int(x, kinds=None):
    """Integer field for the specification; -1 = absent. Non-int numerics are recorded in `kinds`."""
    if x is None:
        return -1
    tn = type(x).__name__
    if kinds is not None:
        kinds.add(tn)
    if isinstance(x, bool):
        return int(x)
    if isinstance(x, int):
        return x
    try:
        if float(x) == int(x):
            return int(x)
    except Exception:
        pass
    return -999


def msg(m, kinds=None) -> dict:
    ty = TY.get(m.message_type, "unk")
    k = m.key
    if k is None:
        ks = ""
    elif isinstance(k, Key):
        ks = k.value
    else:
        ks = f"?{k!r}"
    p = m.note
    v = m.velocity
    if ty == "cc":
        p = m.control
    elif ty == "pc":
        p = m.program
    d = {"ty": ty, "t": _int(m.time, kinds if m.time is not None else None), "ch": _int(m.channel), "p": _int(p),
         "v": _int(v), "n": _int(m.numerator), "d": _int(m.denominator), "k": ks}
    return d


def mk(d: dict) -> Message:
    """Abstract message -> real Message."""
    ty = d["ty"]
    g = lambda k: None if d.get(k, -1) == -1 else d[k]
    kw = dict(message_type=YT[ty], channel=g("ch"), time=g("t"))
    if ty in ("on", "off"):
        kw.update(note=g("p"), velocity=g("v"))
    elif ty == "ts":
        kw.update(numerator=g("n"), denominator=g("d"))
    elif ty == "ks":
        kw.update(key=Key(d["k"]) if d.get("k") else None)
    elif ty == "cc":
        kw.update(control=g("p"), velocity=g("v"))
    elif ty == "pc":
        kw.update(program=g("p"))
    return Message(**kw)


def seq_from_abs(msgs: list[dict]) -> Sequence:
    s = Sequence()
    for d in msgs:
        s.add_absolute_message(mk(d))
    return s


def seq_from_rel(msgs: list[dict]) -> Sequence:
    s = Sequence()
    for d in msgs:
        s.add_relative_message(mk(d))
    return s


def raw_abs(seq: Sequence, kinds=None):
    """Messages of the absolute view as stored/regenerated, read on a deep copy."""
    c = copy.deepcopy(seq)
    return [msg(m, kinds) for m in c.abs._messages]


def raw_rel(seq: Sequence, kinds=None):
    c = copy.deepcopy(seq)
    return [msg(m, kinds) for m in c.rel._messages]


def views(seq: Sequence, kinds=None) -> dict:
    """Both views, read independently on two deep copies; readable=False if a view cannot be produced."""
    out = {"readable": True, "abs": [], "rel": [], "err": ""}
    for name, fn in (("abs", raw_abs), ("rel", raw_rel)):
        try:
            out[name] = fn(seq, kinds)
        except SequenceException as e:
            out["readable"] = False
            out["err"] = str(e)
        except Exception as e:  # anything else is also "not readable", but say what
            out["readable"] = False
            out["err"] = f"{type(e).__name__}: {e}"
    return out


def stale_bits(seq: Sequence):
    return [bool(getattr(seq, "_abs_stale", False)), bool(getattr(seq, "_rel_stale", False))]


# ---- small helpers to write abstract messages in drivers

def on(t, ch, p, v=80):
    return {"ty": "on", "t": t, "ch": ch, "p": p, "v": v, "n": -1, "d": -1, "k": ""}


def off(t, ch, p):
    return {"ty": "off", "t": t, "ch": ch, "p": p, "v": -1, "n": -1, "d": -1, "k": ""}


def wait(n, ch=0):
    return {"ty": "wait", "t": n, "ch": ch, "p": -1, "v": -1, "n": -1, "d": -1, "k": ""}


def ts(t, n, d, ch=0):
    return {"ty": "ts", "t": t, "ch": ch, "p": -1, "v": -1, "n": n, "d": d, "k": ""}


def ks(t, k, ch=0):
    return {"ty": "ks", "t": t, "ch": ch, "p": -1, "v": -1, "n": -1, "d": -1, "k": k}


def cc(t, ctl, val, ch=0):
    return {"ty": "cc", "t": t, "ch": ch, "p": ctl, "v": val, "n": -1, "d": -1, "k": ""}


def pc(t, prog, ch=0):
    return {"ty": "pc", "t": t, "ch": ch, "p": prog, "v": -1, "n": -1, "d": -1, "k": ""}


def internal(t, ch=0):
    return {"ty": "int", "t": t, "ch": ch, "p": -1, "v": -1, "n": -1, "d": -1, "k": ""}


def notes_to_abs(notes, extra=(), dur=None):
    """notes: iterable of (ch, p, start, end, vel). Returns abstract absolute messages in a canonical legal order."""
    ms = []
    for (ch, p, s, e, v) in notes:
        ms.append(on(s, ch, p, v))
        ms.append(off(e, ch, p))
    ms.extend(extra)
    order = {"int": 0, "sc": 1, "ks": 2, "ts": 3, "cc": 4, "pc": 5, "off": 6, "on": 7}
    ms.sort(key=lambda m: (m["t"], order[m["ty"]], m["ch"], m["p"]))
    if dur is not None and (not ms or ms[-1]["t"] < dur):
        ms.append(internal(dur, ms[0]["ch"] if ms else 0))
    return ms


def abs_to_rel(ms):
    """Abstract absolute messages -> abstract relative messages (harness-side helper for building inputs)."""
    out, c = [], 0
    for m in ms:
        if m["t"] > c:
            out.append(wait(m["t"] - c, m["ch"]))
            c = m["t"]
        if m["ty"] != "int":
            r = dict(m)
            r["t"] = -1
            out.append(r)
    return out


def notes_of_abs(ms):
    """Independent pairing of an absolute message list: per (channel, pitch) strict alternation.
    Returns (notes [{ch,p,s,e,v}], wellformed)."""
    open_, notes, ok = {}, [], True
    # the stored order of equal-tick messages is insertion order; a note-off on a tick precedes a note-on of that tick
    ms = sorted(ms, key=lambda m: (m["t"], 0 if m["ty"] == "off" else 1))
    for m in ms:
        k = (m["ch"], m["p"])
        if m["ty"] == "on":
            if k in open_:
                ok = False
            open_[k] = (m["t"], m["v"])
        elif m["ty"] == "off":
            if k not in open_:
                ok = False
                continue
            s, v = open_.pop(k)
            notes.append({"ch": m["ch"], "p": m["p"], "s": s, "e": m["t"], "v": v})
    if open_:
        ok = False
    return notes, ok
