"""C18: pad / cutoff / integer scale / set_channel.  Behaviours of SimpleOps.tla (score x operation histories)
are replayed on real Sequence objects; every step is validated by TLC (Trace_SimpleOps)."""
import itertools

from harness import core, project as P
from harness.common import pmap, build, safe_views, doubled


def apply(seq, o):
    op = o["op"]
    if op == "pad":
        seq.pad(o["a"])
    elif op == "cutoff":
        seq.cutoff(o["a"], o["b"])
    elif op == "scale":
        seq.scale(o["a"], quantise_afterwards=False)
    elif op == "set_channel":
        seq.set_channel(o["a"])
    else:
        raise core.MachineryError(op)


def replay(case):
    idx, score, ops = case
    if idx % 5 == 4:
        # a motif repeated: the same Message objects occur twice; arguments of pad move along with the doubled duration
        seq = doubled(score)
        half = sum(m["t"] for m in P.raw_rel(seq) if m["ty"] == "wait") // 2
        ops = [dict(o, a=o["a"] + half) if o["op"] == "pad" else o for o in ops]
    else:
        seq = build(score, ("abs", "rel", "both")[idx % 3])
    lines = []
    first = True
    for o in ops:
        pre = safe_views(seq)
        err = ""
        try:
            apply(seq, o)
        except core.MachineryError:
            raise
        except Exception as e:
            err = f"{type(e).__name__}: {e}"
        post = safe_views(seq)
        if err:
            post["readable"] = False
            post["err"] = err
        lines.append({"grp": idx, "first": first, "op": o, "pre": pre, "post": post})
        first = False
        if err:
            break
    return lines


def run(ctx):
    if ctx.replay:
        import json
        o = json.load(open(ctx.replay))["observation"]
        cases = [(o["grp"], o["case"]["score"], o["case"]["ops"])]
    else:
        ctx.model_check("MC_SimpleOps", "MC_SimpleOps.cfg", env={"VERIF_TIER": ctx.tier},
                        expect_actions=["Do"], coverage=False)
        g = ctx.generate("Gen_SimpleOps", "Gen_SimpleOps.cfg", env={"VERIF_TIER": ctx.tier})[0]
        scores, ops = g["scores"], g["ops"]
        cases = []
        for i, sc in enumerate(scores):
            for o in ops:
                cases.append((len(cases), sc, [o]))
        pairs = list(itertools.product(ops, ops))
        n_pairs = 60000 if ctx.thorough else 6000
        for _ in range(n_pairs):
            sc = ctx.rng.choice(scores)
            o1, o2 = ctx.rng.choice(pairs)
            cases.append((len(cases), sc, [o1, o2]))
        if ctx.thorough:
            for _ in range(20000):
                sc = ctx.rng.choice(scores)
                cases.append((len(cases), sc, [ctx.rng.choice(ops) for _ in range(ctx.rng.randint(3, 5))]))
    if ctx.fixtures and not ctx.replay:
        from harness import fixtures
        for sc in fixtures.slices("quantised"):
            for o in ops:
                cases.append((len(cases), {k: sc[k] for k in ("notes", "extras", "dur")}, [o]))
    res = pmap(replay, cases)
    obs = []
    for (idx, sc, ops_), lines in zip(cases, res):
        for ln in lines:
            ln["id"] = len(obs)
            ln["case"] = {"score": sc, "ops": ops_}
            obs.append(ln)
    slim = [{k: v for k, v in o.items() if k != "case"} for o in obs]
    ver = ctx.validate("Trace_SimpleOps", "Trace_SimpleOps.cfg", slim, group="grp")
    judged = sum(1 for v in ver if v.get("judged"))
    if judged == 0:
        raise core.MachineryError("vacuity: no observation was inside the property's domain")

    def nontrivial(o):
        if not o["pre"]["rel"]:
            return None
        return (o["op"]["op"], o["op"]["a"], o["op"]["b"], str(o["pre"]["rel"]))

    samples = [{k: o[k] for k in ("op", "pre", "post")} for o in obs[:: max(1, len(obs) // 3)]][:3]
    return ctx.finish(list(zip(obs, ver)),
                      rule="behaviours of SimpleOps.tla: every generated score x every operation, plus seeded random "
                           "operation histories of length 2 (thorough: up to 5); non-trivial = distinct "
                           "(operation, arguments, non-empty pre-state)",
                      nontrivial=nontrivial, samples=samples, extra_cov={"judged_in_domain": judged})
