"""C04: absolute and relative views never diverge.  The labelled state graph of SeqViews.tla is walked (all paths up
to a bound, seeded random paths beyond); each path is executed on a real Sequence from each freshness state; after
every step both views are read on deep copies and the same operation is applied to a history-free object rebuilt
from the pre-state content (history-independence oracle).  TLC (Trace_SeqViews) judges every step."""
import copy
import os
import itertools
import json
import zlib

from harness import core, project as P
from harness.common import pmap
from harness import drive_testlog

core.import_scoda()
from scoda.exceptions.sequence_exception import SequenceException  # noqa: E402
from scoda.sequences.sequence import Sequence  # noqa: E402
from scoda.sequences.absolute_sequence import AbsoluteSequence  # noqa: E402
from scoda.sequences.relative_sequence import RelativeSequence  # noqa: E402
from scoda.enumerations.message_type import MessageType  # noqa: E402

# ---- concrete contents (abstract absolute messages)
CONTENTS = [
    [],
    P.notes_to_abs([(0, 60, 0, 6, 80)]),
    P.notes_to_abs([(0, 60, 1, 7, 80), (1, 62, 4, 13, 50)], [P.ts(0, 3, 4)], dur=24),
    P.notes_to_abs([(0, 60, 0, 5, 80), (0, 60, 7, 12, 70), (0, 64, 3, 20, 60)],
                   [P.ts(0, 4, 4), P.ks(0, "D"), P.ts(12, 3, 4), P.cc(5, 64, 100)], dur=30),
    P.notes_to_abs([(0, 105, 0, 12, 80), (0, 22, 12, 24, 90)], [P.ks(0, "Bb")], dur=36),
    P.notes_to_abs([(0, 60, 0, 8, 80), (1, 61, 0, 8, 70), (0, 60, 8, 16, 60), (1, 67, 8, 20, 50)], [P.ts(0, 2, 4), P.pc(0, 5), P.ts(16, 3, 4)]),
]
OTHER = P.notes_to_abs([(0, 67, 2, 9, 75)], [P.ts(0, 3, 4)], dur=12)
OVERWRITE = P.notes_to_abs([(0, 50, 1, 4, 33), (0, 52, 4, 9, 44)], dur=15)


def build_state(content, node):
    """A real sequence holding `content` in the freshness state `node` = {a, r}."""
    if node["a"] and not node["r"]:
        return Sequence(absolute_sequence=AbsoluteSequence([P.mk(m) for m in content]))
    if node["r"] and not node["a"]:
        return Sequence(relative_sequence=RelativeSequence([P.mk(m) for m in P.abs_to_rel(content)]))
    return Sequence(absolute_sequence=AbsoluteSequence([P.mk(m) for m in content]),
                    relative_sequence=RelativeSequence([P.mk(m) for m in P.abs_to_rel(content)]))


def public_call(seq, op):
    """Executes the public operation `op` with its fixed concrete arguments; returns the object to continue with."""
    if op == "add_absolute_message":
        seq.add_absolute_message(P.mk(P.cc(5, 7, 99)))
    elif op == "add_absolute_cap":
        end = max([m.time for m in copy.deepcopy(seq).abs._messages] + [0])
        seq.add_absolute_message(P.mk(P.internal(end + 5)))
    elif op == "cutoff":
        seq.cutoff(6, 4)
    elif op == "quantise":
        seq.quantise([4])
    elif op == "quantise_note_lengths":
        seq.quantise_note_lengths([2, 4, 8, 12])
    elif op == "add_relative_message":
        seq.add_relative_message(P.mk(P.wait(3)))
    elif op == "concatenate":
        # the argument arrives in a rotating freshness state: its own views must be read through the accessors
        k = len(seq.rel._messages) % 3
        arg = P.seq_from_abs(OTHER) if k == 0 else Sequence(relative_sequence=RelativeSequence([P.mk(m) for m in P.abs_to_rel(OTHER)])) \
            if k == 1 else P.seq_from_abs(OTHER).copy()
        seq.concatenate([arg])
    elif op == "normalise":
        seq.normalise()
    elif op == "pad":
        seq.pad(40)
    elif op == "set_channel":
        seq.set_channel(2)
    elif op == "scale":
        seq.scale(2, quantise_afterwards=False)
    elif op == "transpose":
        if seq.transpose(1):
            return seq, "transpose_wrap"   # a note at the range limit had to be wrapped: composite form
    elif op == "merge":
        k = len(seq.abs._messages) % 2
        arg = P.seq_from_abs(OTHER) if k == 0 else Sequence(relative_sequence=RelativeSequence([P.mk(m) for m in P.abs_to_rel(OTHER)]))
        seq.merge([arg])
    elif op == "quantise_and_normalise":
        seq.quantise_and_normalise([4], [4, 8, 12])
    elif op == "late_iter_abs":
        it = seq.messages_abs()
        seq.set_channel(2)
        for _ in it:
            pass
    elif op == "late_iter_rel":
        it = seq.messages_rel()
        seq.add_absolute_message(P.mk(P.cc(5, 7, 99)))
        for _ in it:
            pass
    elif op == "scale_down_self_meta":
        # halving is only defined here for contents it halves exactly (whole bars, even ticks, one signature); on any
        # other content the call realises a plain relative mutator instead
        probe, ok = copy.deepcopy(seq), True
        try:
            probe.scale(0.5, meta_sequence=probe, quantise_afterwards=False)
            v = P.views(probe)
            ok = v["readable"] and all(m["t"] != -999 for m in v["abs"] + v["rel"])
        except Exception:
            ok = False
        if not ok:
            seq.pad(40)
            return seq, "pad"
        seq.scale(0.5, meta_sequence=seq, quantise_afterwards=False)
    elif op == "scale_requantise":
        seq.scale(2)
    elif op == "transpose_wrap":
        if not seq.transpose(60):
            return seq, "transpose"     # nothing had to be wrapped: the call was the plain relative mutator
    elif op == "read_abs":
        seq.abs
    elif op == "read_rel":
        seq.rel
    elif op == "equals":
        seq.equals(P.seq_from_abs(OTHER))
    elif op == "get_message_pairings":
        seq.get_message_pairings()
    elif op == "get_interleaved_message_pairings":
        seq.get_interleaved_message_pairings()
    elif op == "get_message_times_of_type":
        seq.get_message_times_of_type([MessageType.TIME_SIGNATURE])
    elif op == "get_sequence_channel":
        seq.get_sequence_channel()
    elif op == "get_sequence_duration":
        seq.get_sequence_duration()
    elif op == "is_channel_consistent":
        seq.is_channel_consistent()
    elif op == "get_sequence_duration_relation":
        seq.get_sequence_duration_relation()
    elif op == "is_empty":
        seq.is_empty()
    elif op == "to_midi_track":
        seq.to_midi_track()
    elif op == "split":
        seq.split([5, 7])
    elif op == "split_edit_parts":
        for part in seq.split([5, 7]):
            part.transpose(5)
            part.set_channel(3)
            part.scale(2, quantise_afterwards=False)
    elif op == "overwrite_absolute_messages":
        # the list may arrive in any order: overwrite inserts each message at its time
        ms = [P.mk(m) for m in OVERWRITE]
        k = len(seq.abs._messages) % 3
        ms = ms if k == 0 else (ms[::-1] if k == 1 else ms[2:] + ms[:2])
        seq.overwrite_absolute_messages(ms)
    elif op == "overwrite_relative_messages":
        seq.overwrite_relative_messages([P.mk(m) for m in P.abs_to_rel(OVERWRITE)])
    elif op == "refresh":
        seq.refresh()
    elif op == "copy":
        return seq.copy(), op
    elif op == "invalidate_abs":
        seq.invalidate_abs()
    elif op == "invalidate_rel":
        seq.invalidate_rel()
    else:
        raise core.MachineryError(f"no concrete form for operation {op}")
    return seq, op


def public_durations(seq):
    """What the two public duration queries answer (each on its own deep copy), in ticks; -1 = the query raised."""
    out = []
    for fn in (lambda s: s.get_sequence_duration(), lambda s: s.get_sequence_duration_relation() * 24):
        try:
            out.append(P._int(fn(copy.deepcopy(seq))))
        except Exception:
            out.append(-1)
    return out


def edit_in_turn(m, view="rel", variant=0):
    """In-turn edit of the yielded message: order-preserving, except that in every other group a non-note event of the
    absolute view is moved later in time past its neighbours (the stored list is then out of time order until the library
    sorts it; what the sequence describes is still well defined)."""
    if view == "abs" and variant % 2 and m.message_type in (MessageType.TIME_SIGNATURE, MessageType.KEY_SIGNATURE,
                                                            MessageType.CONTROL_CHANGE, MessageType.PROGRAM_CHANGE):
        m.time = m.time + 30
        return
    if m.message_type in (MessageType.NOTE_ON, MessageType.NOTE_OFF):
        m.note = m.note + 12 if m.note < 90 else m.note - 12
    elif m.message_type == MessageType.WAIT:
        m.time = m.time * 2
    elif m.message_type == MessageType.TIME_SIGNATURE:
        m.numerator = 5
    elif m.message_type == MessageType.CONTROL_CHANGE:
        m.velocity = 1


class Runner:
    """Executes fine-grained steps on one object; keeps the suspended generator."""

    def __init__(self, seq, variant=0):
        self.seq, self.gen, self.cur, self.variant = seq, None, None, variant

    def step(self, f):
        if f in ("iter_start_abs", "iter_start_rel"):
            self.gen = self.seq.messages_abs() if f.endswith("abs") else self.seq.messages_rel()
            self.view = f[-3:]
            self.cur = next(self.gen, None)
        elif f == "iter_yield":
            self.cur = next(self.gen, None)
        elif f == "iter_edit":
            if self.cur is not None:
                edit_in_turn(self.cur, self.view, self.variant)
        elif f == "iter_readother":
            _ = self.seq.rel if self.view == "abs" else self.seq.abs
        elif f == "iter_close":
            self.gen.close()
            self.gen = None
        else:
            self.seq, f = public_call(self.seq, f)
        return f


def is_stale_exc(e):
    return isinstance(e, SequenceException) and "stale" in str(e).lower()


def execute(case):
    """case = (grp, content index, start node, [public ops]) -> trace lines."""
    grp, ci, node, ops, scripts, mutating = case
    real = Runner(build_state(CONTENTS[ci], node), variant=zlib.crc32(str(grp).encode()))
    lines = []
    first = True
    turn = []
    for op in ops:
        fine = scripts.get(op) or [op]
        # history-free twin for this public operation, built from the observed pre-state content
        pre = P.views(real.seq)
        twin = None
        if pre["readable"]:
            try:
                t = P.seq_from_abs([m for m in pre["abs"]])
                t.refresh()
                twin = Runner(t, variant=real.variant)
            except Exception:
                twin = None
        # second twin: the object itself (deep copy) with both views brought up to date.  It keeps the object's own order
        # of equal-tick messages, on which an operation may legitimately depend and which the projected content does not fix
        twin2 = None
        try:
            t2 = copy.deepcopy(real.seq)
            t2.refresh()
            twin2 = Runner(t2, variant=real.variant)
        except Exception:
            twin2 = None
        for f in fine:
            stale_raised, raised = False, ""
            planned = f
            try:
                f = real.step(f) or f
            except core.MachineryError:
                raise
            except Exception as e:
                raised = f"{type(e).__name__}: {e}"
                stale_raised = is_stale_exc(e)
            exp = {"readable": False, "abs": [], "rel": []}
            exp2 = {"readable": False, "abs": [], "rel": []}
            traised = ""
            if twin is not None:
                try:
                    twin.step(planned)
                except Exception as e:
                    traised = f"{type(e).__name__}: {e}"
                exp = P.views(twin.seq)
            if twin2 is not None and real.gen is None and planned not in ("iter_close",):
                try:
                    twin2.step(planned)
                    exp2 = P.views(twin2.seq)
                except Exception:
                    exp2 = {"readable": False, "abs": [], "rel": []}
            post = P.views(real.seq)
            post["qdur"] = public_durations(real.seq)
            if f in ("iter_edit",):
                # during a generator turn the iterated view IS the content: the expected content after an in-turn
                # edit is what the iterated view now shows (read on a deep copy)
                try:
                    c = copy.deepcopy(real.seq)
                    if real.view == "abs":
                        exp = {"readable": True, "abs": [P.msg(m) for m in c.abs._messages], "rel": []}
                    else:
                        c2 = Sequence(relative_sequence=RelativeSequence([m.copy() for m in c.rel._messages]))
                        exp = P.views(c2)
                except Exception:
                    exp = {"readable": False, "abs": [], "rel": []}
            if f == "iter_start_abs" or f == "iter_start_rel" or f == "iter_yield":
                turn = []
            turn.append(f)
            bits = []
            if hasattr(real.seq, "_abs_stale") and hasattr(real.seq, "_rel_stale"):
                bits = [bool(real.seq._abs_stale), bool(real.seq._rel_stale)]
            ln = {"kind": "step", "grp": grp, "first": first, "op": f, "public": op, "start": node,
                  "pre": {"readable": pre["readable"], "abs": pre["abs"]} if first else {"readable": True, "abs": []},
                  "post": post, "exp": exp, "exp2": exp2, "stale_raised": stale_raised, "raised": raised, "twin_raised": traised,
                  "bits": bits, "turn": list(turn), "case": {"content": ci, "start": node, "ops": ops}}
            lines.append(ln)
            first = False
            if raised and not stale_raised and raised.split(":")[0] == traised.split(":")[0] and \
                    (f in mutating or f == "iter_edit"):
                return lines  # the operation itself rejects this content on any object: not C04's business
    return lines


def conv_lines(extra_scores=()):
    out = []
    from harness.common import score_abs
    srcs = [score_abs(sc) for sc in extra_scores] + list(CONTENTS) + [OTHER, OVERWRITE,
                             [P.internal(9)], [P.ts(0, 4, 4), P.internal(5)],
                             P.notes_to_abs([(0, 60, 3, 5, 80)], dur=5),
                             P.notes_to_abs([(0, 60, 3, 5, 80), (1, 60, 5, 9, 70)], [P.ks(5, "A"), P.ts(5, 2, 4)], dur=40)]
    for a in srcs:
        ab = AbsoluteSequence([P.mk(m) for m in a])
        rel = ab.to_relative_sequence()
        out.append({"kind": "conv", "dir": "abs2rel", "src": [P.msg(m) for m in ab._messages],
                    "out": [P.msg(m) for m in rel._messages]})
        r2 = RelativeSequence([P.mk(m) for m in P.abs_to_rel(a)])
        ab2 = r2.to_absolute_sequence()
        out.append({"kind": "conv", "dir": "rel2abs", "src": [P.msg(m) for m in r2._messages],
                    "out": [P.msg(m) for m in ab2._messages]})
        # and the round trips
        back = rel.to_absolute_sequence()
        out.append({"kind": "conv", "dir": "rel2abs", "src": [P.msg(m) for m in rel._messages],
                    "out": [P.msg(m) for m in back._messages]})
    return out


def factory_lines(ctx):
    """Objects the library itself hands out (loader, bar splitter, Bar / Track / Composition, tokeniser, split, copy):
    whatever state their two views are in, they must denote the same content.  One "conv" line per object: the absolute
    view against the relative view, each read on its own deep copy."""
    import random
    from harness import drive_midi as M
    from harness.common import score_abs
    from scoda.elements.bar import Bar
    from scoda.elements.composition import Composition
    from scoda.tokenisation.notelike_tokenisation import MultiTrackLargeVocabularyNotelikeTokeniser as Tokeniser
    rng = random.Random(ctx.seed * 7919 + 5)
    M.TMPDIR = str(ctx.tmp)
    objs = []
    for k in range(60 if not ctx.thorough else 400):
        nt = rng.randint(1, 3)
        tracks = [M.random_track(rng, t, nmax=rng.choice([4, 8]), sig=(k % 2 == 0)) for t in range(nt)]
        path = M.tmpfile()
        try:
            M.write_file(rng.choice([24, 96, 480, 100]), tracks, path)
            objs += list(Sequence.sequences_load(file_path=path))
        except Exception:
            pass
        finally:
            os.unlink(path)
    scores = CONV_SCORES[:: max(1, len(CONV_SCORES) // (40 if not ctx.thorough else 300))]
    for i, sc in enumerate(scores):
        try:
            s = P.seq_from_abs(score_abs(sc)) if i % 2 else P.seq_from_rel(P.abs_to_rel(score_abs(sc)))
            if i % 3 == 0:
                s.refresh()
            objs += [s.copy()] + s.split([7, 9])
            q = s.copy()
            q.quantise_and_normalise()
            bars = Sequence.sequences_split_bars([q, P.seq_from_abs(OTHER)], 0)
            objs += [b.sequence for tb in bars for b in tb] + [Bar.to_sequence(tb) for tb in bars]
            objs += Composition.from_sequences([q.copy()]).to_sequences()
            tok = Tokeniser(num_tracks=2)
            objs += tok.detokenise(tok.tokenise([Bar.to_sequence(tb) for tb in bars]))
        except Exception:
            pass
    lines = []
    for o in objs:
        try:
            lines.append({"kind": "conv", "dir": "abs2rel", "src": P.raw_abs(o), "out": P.raw_rel(o), "factory": True})
        except Exception:
            lines.append({"kind": "conv", "dir": "abs2rel", "src": [P.internal(1)], "out": [], "factory": True})   # unreadable: rejected
    return lines


CONV_SCORES = []
FINDING_ITER = "C04.iter.edit-after-reading-other-view-in-same-turn"


def finding_key(o, v):
    """Shape: inside one generator turn the other view was read, then the yielded message was edited."""
    if o.get("kind") != "step":
        return None
    t = o.get("turn", [])
    if "iter_edit" in t and "iter_readother" in t[:t.index("iter_edit")]:
        if set(v["fails"]) <= {"views-agree.events", "views-agree.notes", "views-agree.duration",
                               "effect-visible.abs", "effect-visible.rel"}:
            return FINDING_ITER
    return None


SLIM_DROP = ("case", "turn", "public", "raised", "twin_raised")


def judge(ctx, obs):
    """validate one batch; apply the illegal-history truncation; returns verdicts"""
    slim = [{k: v for k, v in o.items() if k not in SLIM_DROP} for o in obs]
    ver = ctx.validate("Trace_SeqViews", "Trace_SeqViews.cfg", slim, group="grp")
    cut = set()
    for o, v in zip(obs, ver):
        if v.get("illegal") and o["grp"] not in cut:
            cut.add(o["grp"])
            if o["public"] == o["op"] and "transpose" not in " ".join(o["case"]["ops"]):
                raise core.MachineryError(f"executed step is an illegal history by the specification: {o['case']} at {o['op']}")
        if o.get("grp") in cut:
            v["fails"] = []
            v["skipped"] = True
    return ver, len(cut)


def nontrivial_key(o):
    if o.get("kind") == "log":
        return drive_testlog.nontrivial(o)
    if o.get("kind") == "conv":
        return ("conv", o["dir"], json.dumps(o["src"]))
    return (o["case"]["content"], o["case"]["start"]["a"], o["case"]["start"]["r"], tuple(o["case"]["ops"]), o["op"], len(o["turn"]))


def run_streamed(ctx, cases):
    """thorough tier: hundreds of thousands of histories, processed in batches so that memory stays bounded"""
    ctx.stream_begin()
    samples, truncated, nid, ngrp = [], 0, 0, set()
    B = 20000
    for b0 in range(0, len(cases), B):
        res = pmap(execute, cases[b0:b0 + B], chunk=100)
        obs = [ln for lines in res for ln in lines]
        if b0 == 0:
            cl = conv_lines(CONV_SCORES) + factory_lines(ctx)
            for i, x in enumerate(cl):
                x["grp"] = f"conv{i}"
            obs.extend(cl)
        for x in obs:
            x["id"] = nid
            nid += 1
        ver, cut = judge(ctx, obs)
        truncated += cut
        ngrp |= {o["grp"] for o in obs}
        if not samples:
            samples = [{"start": o["case"]["start"], "content": o["case"]["content"], "history": o["case"]["ops"],
                        "step": o["op"], "post_rel": o["post"]["rel"][:6]} for o in obs if o.get("kind") == "step"][5:400:150]
        ctx.stream_add(zip(obs, ver), nontrivial_key, finding_key)
        del obs, ver, res
    # the repository's whole test suite, every public Sequence call validated against the protocol
    lobs, lver, lcov = drive_testlog.run(ctx)
    ctx.stream_add(zip(lobs, lver), nontrivial_key, finding_key)
    return ctx.stream_finish(
        rule="paths of the labelled state graph written by TLC from SeqViews.tla (all paths <=3 from each of the 3 freshness "
             "states, plus seeded random paths of length 3-12), executed step by step on real objects holding one of 6 "
             "contents; conversion lines in both directions; processed in batches; non-trivial = distinct (content, start "
             "state, history, step); plus every outermost public Sequence call logged while the repository's own test "
             "suite runs (Trace_SeqViewsLog)",
        samples=samples, extra_cov=dict({"histories": len(ngrp), "histories_truncated_as_illegal": truncated}, **lcov))


def run(ctx):
    global CONV_SCORES
    if ctx.replay:
        o = json.load(open(ctx.replay))["observation"]
        g = ctx.generate("Gen_SeqViews", "Gen_SeqViews.cfg")[0]
        scripts = {x["op"]: x["script"] for x in g["scripts"]}
        if o.get("kind") == "log":
            lobs, lver, lcov = drive_testlog.run(ctx, replay_obs=o)
            return ctx.finish(list(zip(lobs, lver)), rule="replay of one repository test under the call recorder",
                              nontrivial=nontrivial_key, samples=[], finding_key=finding_key, extra_cov=lcov)
        if o.get("kind") == "conv" and o.get("factory"):
            CONV_SCORES = ctx.generate("Gen_SimpleOps", "Gen_SimpleOps.cfg", env={"VERIF_TIER": "quick"})[0]["scores"]
            obs = factory_lines(ctx)
        elif o.get("kind") == "conv":
            obs = conv_lines()
        else:
            c = o["case"]
            obs = execute((0, c["content"], c["start"], c["ops"], scripts, set(g["mutating"])))
        for i, x in enumerate(obs):
            x["id"] = i
            x.setdefault("grp", f"c{i}")
    else:
        ctx.model_check("MC_SeqViews", "MC_SeqViews.cfg",
                        expect_actions=["Do", "IterStart", "IterYieldAgain", "IterEdit", "IterReadOther", "IterClose"])
        # the invariants bite: with the as-built overwrite the model check must fail
        d = core.run_tlc("MC_SeqViews", "MC_SeqViews_defect.cfg", workers=4)
        if "Invariant InvReadable is violated" not in d.out:
            raise core.MachineryError("self-test: defect switch OverwriteKeepsStale no longer violates InvReadable")
        g = ctx.generate("Gen_SeqViews", "Gen_SeqViews.cfg")[0]
        # conversion clause: every score the SimpleOps generator writes (notes on two channels, extras, trailing rests)
        CONV_SCORES = ctx.generate("Gen_SimpleOps", "Gen_SimpleOps.cfg", env={"VERIF_TIER": "quick"})[0]["scores"]
        edges = g["edges"]
        scripts = {x["op"]: x["script"] for x in g["scripts"]}
        mutating = set(g["mutating"])
        if not all(e["legal"] for e in edges):
            raise core.MachineryError("generator produced an edge into an unreadable state")
        succ = {}
        for e in edges:
            succ.setdefault((e["from"]["a"], e["from"]["r"]), []).append((e["op"], (e["to"]["a"], e["to"]["r"])))
        for k in succ:
            succ[k].sort()
        nodes = sorted(succ)
        depth = 3 if ctx.thorough else 2
        paths = []

        def walk(n, pre, d):
            if pre:
                paths.append(list(pre))
            if d == 0:
                return
            for op, to in succ[n]:
                pre.append(op)
                walk(to, pre, d - 1)
                pre.pop()

        cases = []
        for n in nodes:
            paths.clear()
            walk(n, [], depth)
            for i, p in enumerate(paths):
                cis = range(len(CONTENTS)) if len(p) == 1 else [1 + (i % (len(CONTENTS) - 1))]
                for ci in cis:
                    cases.append((len(cases), ci, {"a": n[0], "r": n[1]}, list(p), scripts, mutating))
        nrand = 30000 if ctx.thorough else 2500
        for _ in range(nrand):
            n = ctx.rng.choice(nodes)
            start = n
            p = []
            for _ in range(ctx.rng.randint(3, 12 if ctx.thorough else 7)):
                op, n = ctx.rng.choice(succ[n])
                p.append(op)
            cases.append((len(cases), ctx.rng.randrange(len(CONTENTS)), {"a": start[0], "r": start[1]}, p, scripts,
                          mutating))
        if ctx.thorough:
            return run_streamed(ctx, cases)
        res = pmap(execute, cases, chunk=100)
        obs = [ln for lines in res for ln in lines]
        cl = conv_lines(CONV_SCORES) + factory_lines(ctx)
        for i, x in enumerate(cl):
            x["grp"] = f"conv{i}"
        obs.extend(cl)
        for i, x in enumerate(obs):
            x["id"] = i
    slim = [{k: v for k, v in o.items() if k not in ("case", "turn", "public", "raised", "twin_raised")} for o in obs]
    ver = ctx.validate("Trace_SeqViews", "Trace_SeqViews.cfg", slim, group="grp")
    # a step the specification does not allow in the state it is in (possible only when a concrete call realised a
    # different abstract operation than planned, e.g. transpose without wrap) ends the judged part of that history
    cut, truncated = set(), 0
    for o, v in zip(obs, ver):
        if v.get("illegal") and o["grp"] not in cut:
            cut.add(o["grp"])
            truncated += 1
            if o["public"] == o["op"] and "transpose" not in " ".join(o["case"]["ops"]):
                raise core.MachineryError(f"executed step is an illegal history by the specification: {o['case']} at {o['op']}")
        if o.get("grp") in cut:
            v["fails"] = []
            v["skipped"] = True
    drift = sum(1 for v in ver if v.get("drift"))
    import collections
    dc = collections.Counter(o["op"] for o, v in zip(obs, ver) if v.get("drift") and not v.get("skipped"))
    ctx.notes["model_drift_by_op"] = dict(dc.most_common(8))

    nontrivial = nontrivial_key
    lcov = {}
    if not ctx.replay:
        # the repository's own tests (a fast subset in the quick tier), every public Sequence call validated
        lobs, lver, lcov = drive_testlog.run(ctx)
        obs = obs + lobs
        ver = ver + lver

    samples = [{"start": o["case"]["start"], "content": o["case"]["content"], "history": o["case"]["ops"],
                "step": o["op"], "post_rel": o["post"]["rel"][:6]} for o in obs if o.get("kind") == "step"][5:400:150]
    return ctx.finish(list(zip(obs, ver)),
                      rule="paths of the labelled state graph written by TLC from SeqViews.tla (all paths <=2, thorough <=3, "
                           "from each of the 3 freshness states, plus seeded random paths of length 3-7 / 3-12), executed "
                           "step by step on real objects holding one of 5 contents; conversion lines in both directions; "
                           "non-trivial = distinct (content, start state, history, step); plus every outermost public "
                           "Sequence call logged while a fast subset (thorough: all) of the repository's own tests runs, "
                           "validated against the same protocol (Trace_SeqViewsLog)",
                      nontrivial=nontrivial, samples=samples, finding_key=finding_key,
                      extra_cov=dict({"histories": len(set(o["grp"] for o in obs if o.get("kind") != "log")),
                                      "model_drift_steps": drift, "histories_truncated_as_illegal": truncated}, **lcov))
