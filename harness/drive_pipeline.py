"""X05 (extension): the Composition pipeline (from_sequences -> to_sequences -> copy -> save -> load -> re-split) as one
behaviour of Pipeline.tla."""
import json
import os
import tempfile

from harness import core, project as P
from harness.common import pmap

core.import_scoda()
from scoda.elements.composition import Composition  # noqa: E402
from scoda.misc.util import get_default_note_values  # noqa: E402
from scoda.sequences.sequence import Sequence  # noqa: E402

ROUTES = ("rel", "abs", "both")


def build(rel, route):
    s = P.seq_from_rel(rel)
    if route == "abs":
        s = P.seq_from_abs(P.raw_abs(s))
    elif route == "both":
        s.refresh()
    return s


def execute(case):
    idx, src = case
    line = {"src": [], "meta": 1, "values": sorted(int(v) for v in get_default_note_values()), "bars": [], "sigs": [], "joined": [],
            "copyJoined": [], "loaded": [], "again": [], "raised": "", "case": {"src": src, "idx": idx}}
    path = None
    try:
        seqs = [build(r, ROUTES[(idx + i) % 3]) for i, r in enumerate(src)]
        line["src"] = [P.raw_rel(s) for s in seqs]
        comp = Composition.from_sequences(seqs) if idx % 2 else Composition.from_sequences(seqs, meta_track_index=0)
        line["bars"] = [[P.raw_rel(b.sequence) for b in t.bars] for t in comp.tracks]
        line["sigs"] = [[[P._int(b.time_signature_numerator), P._int(b.time_signature_denominator)] for b in t.bars] for t in comp.tracks]
        joined = comp.to_sequences()
        line["joined"] = [P.raw_rel(s) for s in joined]
        cp = comp.copy()
        line["copyJoined"] = [P.raw_rel(s) for s in cp.to_sequences()]
        fd, path = tempfile.mkstemp(suffix=".mid")
        os.close(fd)
        comp.save(path)
        line["loaded"] = [P.raw_rel(s) for s in Sequence.sequences_load(file_path=path)]
        again = Composition.from_sequences([s.copy() for s in comp.to_sequences()])
        line["again"] = [P.raw_rel(s) for s in again.to_sequences()]
    except Exception as e:
        line["raised"] = f"{type(e).__name__}: {e}"
    finally:
        if path and os.path.exists(path):
            os.unlink(path)
    return line


def run(ctx):
    if ctx.replay:
        c = json.load(open(ctx.replay))["observation"]["case"]
        cases = [(c["idx"], c["src"])]
    else:
        ctx.model_check("MC_Pipeline", "MC_Pipeline.cfg", env={"VERIF_TIER": ctx.tier}, expect_actions=["CutBar", "Join", "Save", "Load"])
        g = ctx.generate("Gen_Pipeline", "Gen_Pipeline.cfg", env={"VERIF_TIER": ctx.tier})[0]
        pieces = g["pieces"]
        rng = ctx.rng
        if not ctx.thorough and len(pieces) > 2500:
            pieces = rng.sample(pieces, 2500)
        cases = [(i, p["src"]) for i, p in enumerate(pieces)]
        values = [3, 6, 12, 24, 48]
        for _ in range(6000 if ctx.thorough else 1200):
            plan = rng.choice([[(4, 4)], [(4, 4), (3, 4)], [(3, 4), (3, 4), (4, 4)], [(6, 8), (4, 4)], [(2, 4), (5, 8), (4, 4)], [(2, 2), (3, 8)]])
            lens = [n * 96 // d for n, d in plan]
            starts = [sum(lens[:j]) for j in range(len(plan))]
            total = sum(lens)
            src = []
            for ti in range(rng.randint(1, 3)):
                notes, used = [], {}
                for _ in range(rng.randint(0, 5)):
                    p = rng.choice([48, 60, 72])
                    d = rng.choice(values)
                    s = rng.randrange(0, max(1, total - d), 3)
                    if rng.random() < .7:      # keep it inside one bar
                        j = max(q for q in range(len(plan)) if starts[q] <= s)
                        if s + d > starts[j] + lens[j]:
                            continue
                    if any(not (s + d <= a or b <= s) for a, b in used.get(p, [])):
                        continue
                    used.setdefault(p, []).append((s, s + d))
                    notes.append((ti % 2, p, s, s + d, rng.choice([30, 64, 127])))
                extra = []
                if ti == 0:
                    prev = (4, 4)
                    for j, sg in enumerate(plan):
                        if sg != prev or (j == 0 and rng.random() < .5):
                            extra.append(P.ts(starts[j], sg[0], sg[1]))
                        prev = sg
                    dur = starts[-1] + rng.choice([1, lens[-1]])
                else:
                    dur = rng.choice([None, total, starts[-1]])
                src.append(P.abs_to_rel(P.notes_to_abs(notes, extra, dur)))
            cases.append((len(cases), src))
    obs = pmap(execute, cases, chunk=100)
    for i, o in enumerate(obs):
        o["id"] = i
    slim = [{k: v for k, v in o.items() if k != "case"} for o in obs]
    ver = ctx.validate("Trace_Pipeline", "Trace_Pipeline.cfg", slim, per_shard_min=100)

    def nontrivial(o):
        return json.dumps(o["src"]) if any(m["ty"] == "on" for r in o["src"] for m in r) else None

    samples = [{"tracks": len(o["src"]), "bars": [len(b) for b in o["bars"]], "sigs": o["sigs"][:1]} for o in obs[7::max(1, len(obs) // 3)]][:3]
    return ctx.finish(list(zip(obs, ver)),
                      rule="initial states of Pipeline.tla (bar-friendly pieces of 1-2 tracks over 6 signature plans, <= 2 notes per "
                           "track, thorough 3) plus seeded random pieces of 1-3 tracks with notes crossing bar lines and durations "
                           "outside the note values; every piece runs from_sequences -> to_sequences -> copy -> save -> load -> re-split; "
                           "non-trivial = distinct source with at least one note",
                      nontrivial=nontrivial, samples=samples)
