"""Slices of the repository's own MIDI fixtures as abstract scores (realistic content for the thorough tiers).
The slices are cut from the messages as loaded (raw) or after quantise_and_normalise (quantised), re-based to tick 0."""
from __future__ import annotations

import glob
import os

from harness import core, project as P

core.import_scoda()
from scoda.sequences.sequence import Sequence  # noqa: E402

_CACHE = {}


def _notes_and_extras(ab, lo, hi):
    notes, ok = P.notes_of_abs(ab)
    ns = [dict(n) for n in notes if lo <= n["s"] < hi and n["e"] > n["s"]]
    for n in ns:
        n["s"] -= lo
        n["e"] -= lo
    ex = []
    for m in ab:
        if m["ty"] in ("ts", "ks") and lo <= m["t"] < hi:
            e = dict(m)
            e["t"] -= lo
            ex.append(e)
    return ns, ex


def slices(kind="quantised", width=192, per_track=6, max_notes=40):
    """-> list of scores {notes, extras, dur, src}.  kind: 'raw' | 'quantised'."""
    key = (kind, width, per_track, max_notes)
    if key in _CACHE:
        return _CACHE[key]
    out = []
    res = sorted(glob.glob(os.path.join(core.scoda_root(), "test", "res", "*.mid")))
    for f in res:
        try:
            seqs = Sequence.sequences_load(file_path=f)
        except Exception:
            continue
        for ti, s in enumerate(seqs):
            try:
                if kind == "quantised":
                    s.quantise_and_normalise()
                ab = P.raw_abs(s)
            except Exception:
                continue
            if not ab:
                continue
            end = max(m["t"] for m in ab)
            starts = list(range(0, max(1, end - width), max(width, (end // max(1, per_track)) // width * width or width)))[:per_track]
            for lo in starts:
                ns, ex = _notes_and_extras(ab, lo, lo + width)
                if not ns or len(ns) > max_notes:
                    continue
                # no two notes of one channel and pitch may overlap inside the slice (they do not in well-formed files)
                busy, good = {}, True
                for n in sorted(ns, key=lambda x: x["s"]):
                    k = (n["ch"], n["p"])
                    if k in busy and busy[k] > n["s"]:
                        good = False
                        break
                    busy[k] = n["e"]
                if not good:
                    continue
                out.append({"notes": ns, "extras": ex, "dur": max([n["e"] for n in ns] + [width]),
                            "src": f"{os.path.basename(f)}#{ti}@{lo}"})
    _CACHE[key] = out
    return out
