"""C12 (save -> load) and C13 (loading files of any resolution with track grouping).  Pieces of MidiCodec.tla and
seeded random ones are written / loaded by the real code; files for C13 are written directly with mido (trusted) and
parsed back with mido for the ground truth; TLC (Trace_MidiCodec) judges each observation."""
import json
import os
import tempfile

import mido

from harness import core, project as P
from harness.common import pmap, build, score_abs, via, via4, canonical_in

core.import_scoda()
from scoda.misc.music_theory import Key  # noqa: E402
from scoda.sequences.sequence import Sequence  # noqa: E402

KEYS = [k.value for k in Key]
TMPDIR = None
# the relative minor of each major key (tonic a minor third below): the two names denote the same key signature
REL_MINOR = {"C": "Am", "G": "Em", "D": "Bm", "A": "F#m", "E": "C#m", "B": "G#m", "F#": "D#m", "C#": "A#m",
             "F": "Dm", "Bb": "Gm", "Eb": "Cm", "Ab": "Fm", "Db": "Bbm", "Gb": "Ebm", "Cb": "Abm"}
MAJOR_OF = {v: k for k, v in REL_MINOR.items()}


def tmpfile():
    fd, name = tempfile.mkstemp(suffix=".mid", dir=TMPDIR)
    os.close(fd)
    return name


# ------------------------------------------------------------------ C12

def saveload(case):
    idx, scores = case
    line = {"kind": "saveload", "saved": [], "loaded": [], "loadedRel": [], "raised": "", "target": 0, "case": {"scores": scores}}
    # history of a path: every third case writes to the path the previous such case of this process wrote to (a piece saved
    # again under the same name after it was changed); what is loaded must be what was saved last
    reuse = idx % 3 == 1
    path = os.path.join(TMPDIR or tempfile.gettempdir(), f"reused-{os.getpid()}.mid") if reuse else tmpfile()
    try:
        seqs = [build(sc, via4(idx + i)) for i, sc in enumerate(scores)]
        if idx % 7 == 6:
            # history: the relative view was materialised (as a first save does), then the sequence was changed on the
            # absolute side; what is saved is what the sequence holds now
            for s in seqs:
                s.refresh()
                s.quantise([2])
        # the content that is saved: the timed events of the sequence (for the 'late' route, whose absolute view stores
        # the events of one tick in insertion order, in canonical order)
        line["saved"] = [P.abs_to_rel(canonical_in(s, sc)) if (via4(idx + i) == "late" and idx % 7 != 6) else
                         P.abs_to_rel(P.raw_abs(s)) for i, (s, sc) in enumerate(zip(seqs, scores))]
        if len(seqs) == 1 and idx % 2:
            seqs[0].save(path)              # the single-sequence entry point
        else:
            Sequence.sequences_save(seqs, path)
        tgt = idx % len(seqs)
        line["target"] = tgt
        loaded = Sequence.sequences_load(file_path=path) if tgt == 0 and idx % 2 == 0 else \
            Sequence.sequences_load(file_path=path, target_meta_track_index=tgt)
        line["loaded"] = [P.raw_abs(s) for s in loaded]
        line["loadedRel"] = [P.raw_rel(s) for s in loaded]      # both views of what the loader hands out
    except Exception as e:
        line["raised"] = f"{type(e).__name__}: {e}"
    finally:
        if not reuse:
            os.unlink(path)
    return line


def random_saved(rng):
    n = rng.randint(1, 3)
    out = []
    used_ts, used_ks = set(), set()
    for i in range(n):
        notes, t = [], rng.choice([0, 0, 5, 30])
        for _ in range(rng.randint(0, 6)):
            s = t + rng.choice([0, 1, 4, 10])
            e = s + rng.choice([1, 2, 6, 24, 50])
            notes.append({"ch": 0, "p": rng.randint(21, 108), "s": s, "e": e, "v": rng.randint(1, 127)})
            t = e if rng.random() < .6 else s
        # no two equal pitches overlapping
        ok, busy = [], {}
        for x in notes:
            if any(not (x["e"] <= a or b <= x["s"]) for a, b in busy.get(x["p"], [])):
                continue
            busy.setdefault(x["p"], []).append((x["s"], x["e"]))
            ok.append(x)
        extras = []
        for _ in range(rng.randint(0, 2)):
            tk = rng.randint(0, 60)
            if tk not in used_ts:
                used_ts.add(tk)
                extras.append(P.ts(tk, rng.choice([2, 3, 4, 6, 7]), rng.choice([2, 4, 8])))
        for _ in range(rng.randint(0, 2)):
            tk = rng.randint(0, 60)
            if tk not in used_ks:
                used_ks.add(tk)
                extras.append(P.ks(tk, rng.choice(KEYS)))
        if rng.random() < .4:
            extras.append(P.pc(rng.randint(0, 40), rng.randint(0, 100)))
        if rng.random() < .4:
            extras.append(P.cc(rng.randint(0, 40), 64, rng.randint(0, 127)))
        if rng.random() < .2 and ok:
            # a two-channel sequence (what merging two single-channel sequences gives); a pitch released on one channel may be
            # struck on the other at the same tick - still no two notes of one pitch sound together
            two = rng.sample([0, 1, 5], 2)
            last = {}
            for x in sorted(ok, key=lambda n: n["s"]):
                x["ch"] = two[1 - two.index(last[x["p"]])] if x["p"] in last and rng.random() < .7 else rng.choice(two)
                last[x["p"]] = x["ch"]
            s0 = max(x["e"] for x in ok)
            p0 = max(ok, key=lambda n: n["e"])
            ok.append({"ch": two[1 - two.index(p0["ch"])], "p": p0["p"], "s": s0, "e": s0 + rng.choice([1, 24]), "v": rng.randint(1, 127)})
        out.append({"notes": ok, "extras": extras, "dur": rng.choice([0, 0, 80])})
    return out


# ------------------------------------------------------------------ C13

def write_file(res, tracks, path):
    """tracks: list of lists of abstract events with delta field 'dt' (file ticks)."""
    mf = mido.MidiFile(ticks_per_beat=res)
    for tr in tracks:
        t = mido.MidiTrack()
        for e in tr:
            if e["ty"] == "on":
                t.append(mido.Message("note_on", note=e["p"], velocity=e["v"], channel=e["ch"], time=e["dt"]))
            elif e["ty"] == "off":
                if e.get("as_on0"):
                    t.append(mido.Message("note_on", note=e["p"], velocity=0, channel=e["ch"], time=e["dt"]))
                else:
                    t.append(mido.Message("note_off", note=e["p"], velocity=0, channel=e["ch"], time=e["dt"]))
            elif e["ty"] == "ts":
                t.append(mido.MetaMessage("time_signature", numerator=e["n"], denominator=e["d"], time=e["dt"]))
            elif e["ty"] == "ks":
                # a file may name the key by its relative minor: the same signature (k stays the major name the spec uses)
                t.append(mido.MetaMessage("key_signature", key=e.get("kfile", e["k"]), time=e["dt"]))
            elif e["ty"] == "text":
                t.append(mido.MetaMessage("text", text="x", time=e["dt"]))
            elif e["ty"] == "pw":        # channel events the library has no counterpart for: only their delta times matter
                t.append(mido.Message("pitchwheel", pitch=100, channel=e.get("ch", 0), time=e["dt"]))
            elif e["ty"] == "at":
                t.append(mido.Message("aftertouch", value=64, channel=e.get("ch", 0), time=e["dt"]))
            elif e["ty"] == "sysex":
                t.append(mido.Message("sysex", data=[1, 2], time=e["dt"]))
            elif e["ty"] == "tempo":
                t.append(mido.MetaMessage("set_tempo", tempo=400000, time=e["dt"]))
        mf.tracks.append(t)
    mf.save(path)


def parse_file(path):
    mf = mido.MidiFile(path)
    out = []
    for tr in mf.tracks:
        T, evs = 0, []
        for m in tr:
            T += m.time
            if m.type == "note_on" and m.velocity > 0:
                evs.append(P.on(T, m.channel, m.note, m.velocity))
            elif m.type == "note_off" or (m.type == "note_on" and m.velocity == 0):
                evs.append(P.off(T, m.channel, m.note))
            elif m.type == "time_signature":
                evs.append(P.ts(T, m.numerator, m.denominator, -1))
            elif m.type == "key_signature":
                evs.append(P.ks(T, MAJOR_OF.get(m.key, m.key), -1))     # the signature, named by its major key
        out.append(evs)
    return mf.ticks_per_beat, out


def load(case):
    idx, res, tracks, groups, meta, target = case
    line = {"kind": "load", "res": res, "file": [], "groups": groups, "metaIdx": meta, "target": target, "loaded": [], "loadedRel": [],
            "raised": "", "case": {"res": res, "tracks": tracks, "groups": groups, "meta": meta, "target": target}}
    path = tmpfile()
    try:
        write_file(res, tracks, path)
        r, f = parse_file(path)
        line["res"], line["file"] = r, f
        if idx % 3 == 0:
            from scoda.midi.midi_file import MidiFile
            mfo = MidiFile.open(path)
            if idx % 2 == 0:
                # the same MidiFile object was converted before, with another grouping: conversions must not interfere
                try:
                    Sequence.sequences_load(midi_file=mfo, track_indices=[[i] for i in range(len(tracks))],
                                            meta_track_indices=[0])
                except Exception:
                    pass
            loaded = Sequence.sequences_load(midi_file=mfo, track_indices=[list(g) for g in groups],
                                             meta_track_indices=list(meta), target_meta_track_index=target)
        elif list(meta) == list(range(len(tracks))) and idx % 2:
            # every track may carry meta messages: that is the default, the argument is left out
            loaded = Sequence.sequences_load(file_path=path, track_indices=[list(g) for g in groups],
                                             target_meta_track_index=target)
        else:
            loaded = Sequence.sequences_load(file_path=path, track_indices=[list(g) for g in groups],
                                             meta_track_indices=list(meta), target_meta_track_index=target)
        line["loaded"] = [P.raw_abs(s) for s in loaded]
        line["loadedRel"] = [P.raw_rel(s) for s in loaded]      # both views of what the loader hands out
    except Exception as e:
        line["raised"] = f"{type(e).__name__}: {e}"
    finally:
        os.unlink(path)
    return line


def track_from_score(score, scale, rng, ch):
    """Abstract score -> file track with delta times; ticks multiplied by `scale` and jittered to hit odd positions."""
    ms = score_abs(score)
    evs, last = [], 0
    for m in ms:
        if m["ty"] not in ("on", "off", "ts", "ks"):
            continue
        T = m["t"] * scale
        e = dict(m)
        e["dt"] = T - last
        e["ch"] = ch if m["ty"] in ("on", "off") else 0
        if m["ty"] == "off" and rng.random() < .5:
            e["as_on0"] = True
        last = T
        evs.append(e)
    return evs


def random_track(rng, ch, nmax=8, sig=True, ones=False):
    """a track; `ch` may be a tuple of channels (one MIDI track carrying several channels, same pitches on both)"""
    chans = ch if isinstance(ch, tuple) else (ch,)
    evs, open_, T = [], {}, 0
    for _ in range(rng.randint(1, nmax)):
        dt = 1 if ones else rng.choice([0, 0, 1, 1, 2, 3, 5, 7, 11, 30, 100])
        r = rng.random()
        if rng.random() < .12:
            # a run of events without a counterpart in the library, each with its own delta time
            for _ in range(rng.randint(1, 3)):
                evs.append({"ty": rng.choice(["pw", "at", "sysex", "tempo", "text"]), "ch": chans[0], "dt": rng.choice([0, 1, 3, 7, 30])})
        if open_ and r < .5:
            c, p = rng.choice(sorted(open_))
            open_[(c, p)] -= 1
            if open_[(c, p)] == 0:
                del open_[(c, p)]
            evs.append({"ty": "off", "p": p, "ch": c, "dt": dt, "as_on0": rng.random() < .5, "v": 0})
        elif r < .85:
            p = rng.choice([60, 61, 62, 72])
            c = rng.choice(chans)
            if (c, p) in open_:
                if rng.random() < .7:
                    continue
                # a re-strike while the note still sounds (nested: it needs its own note-off later)
                open_[(c, p)] += 1
                evs.append({"ty": "on", "p": p, "ch": c, "v": rng.randint(1, 127), "dt": dt})
                continue
            open_[(c, p)] = 1
            evs.append({"ty": "on", "p": p, "ch": c, "v": rng.randint(1, 127), "dt": dt})
        elif sig and r < .93:
            evs.append({"ty": "ts", "n": rng.choice([2, 3, 4, 6]), "d": rng.choice([4, 8]), "dt": dt})
        elif sig:
            k = rng.choice(KEYS)
            evs.append({"ty": "ks", "k": k, "dt": dt, **({"kfile": REL_MINOR[k]} if rng.random() < .35 else {})})
        else:
            evs.append({"ty": "text", "dt": dt})
    dangling = rng.random() < .2          # an ill-formed track: one note is never closed / a note-off closes nothing
    for c, p in sorted(open_):
        if dangling:
            dangling = False
            continue
        for _ in range(open_[(c, p)]):
            evs.append({"ty": "off", "p": p, "ch": c, "dt": rng.choice([0, 1, 2, 9]), "v": 0})
    if rng.random() < .1:
        evs.insert(rng.randrange(len(evs) + 1), {"ty": "off", "p": rng.choice([60, 61, 62, 72]), "ch": rng.choice(chans),
                                                 "dt": rng.choice([0, 1, 5]), "v": 0, "as_on0": rng.random() < .5})
    return evs


def random_routing(rng, ntracks):
    idx = list(range(ntracks))
    rng.shuffle(idx)
    k = rng.randint(1, ntracks)           # tracks that are in some group
    used = idx[:k]
    ng = rng.randint(1, k)
    groups = [[] for _ in range(ng)]
    for j, t in enumerate(used):
        groups[j if j < ng else rng.randrange(ng)].append(t)
    meta = [t for t in range(ntracks) if rng.random() < .5] if rng.random() < .8 else list(range(ntracks))
    return groups, meta, rng.randrange(ng)


def run(ctx):
    global TMPDIR
    TMPDIR = str(ctx.tmp)
    g = None
    if not ctx.replay:
        ctx.model_check("MC_MidiCodec", "MC_MidiCodec.cfg", env={"VERIF_TIER": ctx.tier},
                        expect_actions=["WWait", "WEvent", "WSilent", "REvent"], coverage=False, timeout=3000)
        g = ctx.generate("Gen_MidiCodec", "Gen_MidiCodec.cfg", env={"VERIF_TIER": ctx.tier})[0]
    return run_saveload(ctx, g) if ctx.pid == "C12" else run_load(ctx, g)


def run_saveload(ctx, g):
    rng = ctx.rng
    if ctx.replay:
        c = json.load(open(ctx.replay))["observation"]["case"]
        cases = [(0, c["scores"]), (1, c["scores"])]
    else:
        scores = g["scores"]
        cases = [(i, [sc]) for i, sc in enumerate(scores)]
        for _ in range(30000 if ctx.thorough else 3000):
            fam = [rng.choice(scores) for _ in range(rng.randint(2, 3))]
            cases.append((len(cases), fam))
        for _ in range(40000 if ctx.thorough else 4000):
            cases.append((len(cases), random_saved(rng)))
    if ctx.fixtures and not ctx.replay:
        from harness import fixtures
        sl = fixtures.slices("quantised")
        for a, b in zip(sl, sl[1:]):
            cases.append((len(cases), [{k: x[k] for k in ("notes", "extras", "dur")} for x in (a, b)]))
            cases.append((len(cases), [{k: a[k] for k in ("notes", "extras", "dur")}]))
    obs = pmap(saveload, cases, chunk=200)
    for i, o in enumerate(obs):
        o["id"] = i
    slim = [{k: v for k, v in o.items() if k != "case"} for o in obs]
    ver = ctx.validate("Trace_MidiCodec", "Trace_MidiCodec.cfg", slim, per_shard_min=150)
    judged = sum(1 for v in ver if v.get("info") == "judged")
    if not ctx.replay and judged < len(ver) // 3:
        raise core.MachineryError(f"vacuity: only {judged} of {len(ver)} cases inside C12's domain")

    def nontrivial(o):
        if not any(m["ty"] == "on" for s in o["saved"] for m in s):
            return None
        return json.dumps(o["saved"])

    samples = [{"saved": [[(m["ty"], m["t"], m["p"], m["v"], m["k"]) for m in s] for s in o["saved"]]}
               for o in obs[len(obs) // 2::max(1, len(obs) // 7)]][:3]
    return ctx.finish(list(zip(obs, ver)),
                      rule="pieces of MidiCodec.tla saved alone and in families of 2-3, plus seeded random lists of 1-3 sequences "
                           "(pitches 21..108, velocities 1..127, all 15 keys, signatures at distinct arbitrary ticks, leading "
                           "rests, program/control changes between waits); each saved and loaded by the real code; non-trivial = "
                           "distinct saved list containing a note",
                      nontrivial=nontrivial, samples=samples, extra_cov={"judged_in_domain": judged})


def run_load(ctx, g):
    rng = ctx.rng
    if ctx.replay:
        c = json.load(open(ctx.replay))["observation"]["case"]
        cases = [(0, c["res"], c["tracks"], c["groups"], c["meta"], c["target"])]
    else:
        scores = g["scores"]
        ress = sorted(set(g["resolutions"] + [384, 480, 960, 24, 48, 96, 120, 7, 25, 100]))
        cases = []
        n1 = 20000 if ctx.thorough else 2500
        for k in range(n1):
            res = ress[k % len(ress)]
            nt = rng.randint(1, 4)
            tracks = []
            for t in range(nt):
                sc = scores[(k * 31 + t * 7) % len(scores)]
                tracks.append(track_from_score(sc, rng.choice([1, 1, 2, 3, res // 8 or 1]), rng, rng.choice([0, t % 2])))
            groups, meta, tgt = random_routing(rng, nt)
            cases.append((len(cases), res, tracks, groups, meta, tgt))
        for k in range(30000 if ctx.thorough else 3500):
            res = rng.choice(ress)
            nt = rng.randint(1, 4)
            tracks = [random_track(rng, rng.choice([0, 1, t, (0, 1), (0, 3)]), nmax=rng.choice([4, 8, 40]), ones=rng.random() < .2)
                      for t in range(nt)]
            groups, meta, tgt = random_routing(rng, nt)
            cases.append((len(cases), res, tracks, groups, meta, tgt))
    obs = pmap(load, cases, chunk=200)
    for i, o in enumerate(obs):
        o["id"] = i
    slim = [{k: v for k, v in o.items() if k != "case"} for o in obs]
    ver = ctx.validate("Trace_MidiCodec", "Trace_MidiCodec.cfg", slim, per_shard_min=150)
    judged = sum(1 for v in ver if v.get("info") == "judged")
    ties = sum(1 for v in ver if v.get("info") == "tie")
    if not ctx.replay and (judged == 0 or ties == 0):
        raise core.MachineryError("vacuity: tie-free and tie cases not both present")

    def nontrivial(o):
        if not any(m["ty"] == "on" for t in o["file"] for m in t):
            return None
        return (o["res"], json.dumps(o["file"]), json.dumps(o["groups"]), json.dumps(o["metaIdx"]), o["target"])

    samples = [{"res": o["res"], "groups": o["groups"], "meta": o["metaIdx"], "target": o["target"],
                "file": [[(m["ty"], m["t"], m["ch"], m["p"]) for m in t][:8] for t in o["file"]]}
               for o in obs[len(obs) // 2::max(1, len(obs) // 7)]][:3]
    return ctx.finish(list(zip(obs, ver)),
                      rule="files written with mido at 13 resolutions (24..960 and 5, 7, 25, 100): tracks from the pieces of "
                           "MidiCodec.tla (scaled) and seeded random delta patterns (runs of 1-tick deltas, sub-resolution notes, "
                           "note-on velocity 0 as note-off, text meta events), 1-4 tracks, random grouping / meta subset / target; "
                           "non-trivial = distinct (resolution, file, routing) with a note",
                      nontrivial=nontrivial, samples=samples,
                      extra_cov={"judged_without_exact_tie": judged, "cases_with_exact_half_tick_tie": ties})
