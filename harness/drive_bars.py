"""C09 (bar splitting) and C10 (Bar constructor).  The generated input spaces written by TLC from Bars.tla are
executed on the real code; TLC (Trace_Bars) judges each observation."""
import copy
import json

from harness import core, project as P
from harness.common import pmap, build, via

core.import_scoda()
from scoda.elements.bar import Bar  # noqa: E402
from scoda.exceptions.bar_exception import BarException  # noqa: E402
from scoda.misc.music_theory import Key  # noqa: E402
from scoda.sequences.sequence import Sequence  # noqa: E402


def kname(k):
    if k is None:
        return ""
    return k.value if isinstance(k, Key) else f"?{k!r}"


# ------------------------------------------------------------------ C10

def ctor(case):
    idx, c, key = case
    line = {"kind": "ctor", "num": c["num"], "den": c["den"], "key": key or "", "in": [], "raised": "", "out": [],
            "outAbs": [], "copyOut": [], "copyNum": -1, "copyDen": -1, "copyKey": "", "copyRaised": "", "copyEquals": False,
            "later": {"done": False, "barKey": "", "copyKey": "", "sigSame": True, "barOut": [], "copyOut": [], "equals": True},
            "case": {"c": c, "key": key}}
    if "rel" in c:
        seq = P.seq_from_rel(c["rel"])          # a raw relative message list (unclosed notes, signatures anywhere)
    else:
        seq = build(c, via(idx))
    if idx % 7 == 6 and "rel" not in c:
        # history: the duration of the sequence was asked for, then the sequence was stretched in place
        seq.get_sequence_duration_relation()
        seq.scale(2, quantise_afterwards=False)
    line["in"] = P.raw_rel(seq)
    try:
        bar = Bar(seq, c["num"], c["den"], Key(key) if key else None)
    except BarException:
        line["raised"] = "BarException"
        return line
    except Exception as e:
        line["raised"] = f"{type(e).__name__}: {e}"
        return line
    v = P.views(bar.sequence)
    if not v["readable"]:
        line["raised"] = "unreadable: " + v["err"]
        return line
    line["out"], line["outAbs"] = v["rel"], v["abs"]
    try:
        cp = bar.copy()
        line["copyOut"] = P.raw_rel(cp.sequence)
        line["copyNum"], line["copyDen"] = cp.time_signature_numerator, cp.time_signature_denominator
        line["copyKey"] = kname(cp.key_signature)
        line["copyEquals"] = bool(cp.sequence.equals(bar.sequence)) and bool(bar.sequence.equals(cp.sequence))
        # history: the bar is transposed (its key changes), then copied again: the copy is the bar as it is now
        import copy as _copy
        b2 = _copy.deepcopy(bar)
        b2.transpose(2 if idx % 2 else -5)
        c2 = b2.copy()
        line["later"] = {"done": True, "barKey": kname(b2.key_signature), "copyKey": kname(c2.key_signature),
                         "sigSame": bool(c2.time_signature_numerator == b2.time_signature_numerator
                                         and c2.time_signature_denominator == b2.time_signature_denominator),
                         "barOut": P.raw_rel(b2.sequence), "copyOut": P.raw_rel(c2.sequence),
                         "equals": bool(c2.sequence.equals(b2.sequence))}
    except Exception as e:
        line["copyRaised"] = f"{type(e).__name__}: {e}"
    return line


F_IDENT = "C10.second-signature.identical-repeat"


def ctor_finding(o, v):
    if o.get("kind") != "ctor" or v["fails"] != ["second-signature-rejected"]:
        return None
    ts = [m for m in o["in"] if m["ty"] == "ts"]
    if len(ts) >= 2 and all((m["n"], m["d"]) == (o["num"], o["den"]) for m in ts):
        return F_IDENT
    return None


# ------------------------------------------------------------------ C09

def split_bars(case):
    idx, tracks, meta_idx, qnl = case
    line = {"kind": "split", "metaIdx": meta_idx + 1, "qnl": qnl, "tracks": [], "tracksAfter": [], "absBefore": [],
            "absAfter": [], "bars": [], "raised": "", "compA": [], "compB": [], "case": {"tracks": tracks, "metaIdx": meta_idx, "qnl": qnl}}
    try:
        late_extra = None
        if idx % 8 == 1 and any(m["t"] > 0 for m in tracks[meta_idx].get("extras", [])):
            # history: the piece was split into bars while its meta track did not yet hold its last signature / key change;
            # the change is then added in place (add_absolute_message) and the piece - as it is now - is split again
            ex = tracks[meta_idx]["extras"]
            late_extra = max((m for m in ex if m["t"] > 0), key=lambda m: m["t"])
            tracks = [dict(t, extras=[m for m in ex if m is not late_extra]) if i == meta_idx else t for i, t in enumerate(tracks)]
        seqs = [build(t, via(idx + i)) for i, t in enumerate(tracks)]
        if late_extra is not None:
            try:
                Sequence.sequences_split_bars(seqs, meta_track_index=meta_idx, quantise_note_lengths=qnl)
            except Exception:
                pass
            seqs[meta_idx].add_absolute_message(P.mk(late_extra))
        line["tracks"] = [P.raw_rel(s) for s in seqs]
        line["absBefore"] = [P.raw_abs(s) for s in seqs]
        if idx % 4 == 3:
            # history: the same inputs were split into bars before (they are unchanged by it), the judged call is the second
            Sequence.sequences_split_bars(seqs, meta_track_index=meta_idx, quantise_note_lengths=qnl)
        out = Sequence.sequences_split_bars(seqs, meta_track_index=meta_idx, quantise_note_lengths=qnl)
        line["bars"] = [[{"rel": P.raw_rel(b.sequence), "num": b.time_signature_numerator,
                          "den": b.time_signature_denominator, "key": kname(b.key_signature)} for b in tb] for tb in out]
        line["tracksAfter"] = [P.raw_rel(s) for s in seqs]
        line["absAfter"] = [P.raw_abs(s) for s in seqs]
        if idx % 6 == 5:
            # the Composition entry point (file -> load -> quantise_and_normalise -> bars) against the same steps done by hand
            import os, tempfile
            from scoda.elements.composition import Composition
            fd, path = tempfile.mkstemp(suffix=".mid", dir=TMPDIR)
            os.close(fd)
            try:
                Sequence.sequences_save([build(t, "abs") for t in tracks], path)
                n = len(tracks)
                args = dict(track_indices=[[i] for i in range(n)], meta_track_indices=list(range(n)))
                comp = Composition.from_midi_file(path, meta_track_index=meta_idx, **args)
                hand = Sequence.sequences_load(file_path=path, target_meta_track_index=meta_idx, **args)
                [s.quantise_and_normalise() for s in hand]
                proj = lambda tb: [{"rel": P.raw_rel(b.sequence), "num": b.time_signature_numerator,
                                    "den": b.time_signature_denominator, "key": kname(b.key_signature)} for b in tb]
                line["compA"] = [proj(t.bars) for t in comp.tracks]
                line["compB"] = [proj(tb) for tb in Sequence.sequences_split_bars(hand, meta_track_index=meta_idx)]
            except Exception as e:
                line["compA"], line["compB"] = [[f"raised {type(e).__name__}"]], []
            finally:
                os.unlink(path)
    except Exception as e:
        line["raised"] = f"{type(e).__name__}: {e}"
    return line


def with_meta(score, meta, dur):
    sc = {"notes": list(score["notes"]), "extras": [dict(m) for m in meta], "dur": dur}
    return sc


TMPDIR = None


def run(ctx):
    global TMPDIR
    TMPDIR = str(ctx.tmp)
    g = ctx.generate("Gen_Bars", "Gen_Bars.cfg", env={"VERIF_TIER": ctx.tier})[0] if not ctx.replay else None
    if ctx.pid == "C10":
        return run_ctor(ctx, g)
    return run_split(ctx, g)


def run_ctor(ctx, g):
    if ctx.replay:
        c = json.load(open(ctx.replay))["observation"]["case"]
        cases = [(0, c["c"], c["key"]), (1, c["c"], c["key"])]
    else:
        ctx.model_check("MC_Bars", "MC_Bars.cfg", expect_actions=["EmitBar"])
        # the constructor as a step system: the intended design meets the property, the as-built counting of signature
        # events after normalisation is refuted (the recorded identical-repeat finding)
        ctx.model_check("MC_BarCtor", "MC_BarCtor.cfg",
                        expect_actions=["Normalise", "CheckCapacity", "Pad", "CheckSignatures", "Install"])
        d = core.run_tlc("MC_BarCtor", "MC_BarCtor_asbuilt.cfg", workers=2)
        if "Invariant RejectsWhatItMust is violated" not in d.out:
            raise core.MachineryError("self-test: as-built switch of BarCtor no longer violates RejectsWhatItMust")
        cases = []
        for c in g["ctorCases"]:
            # events of one tick are stored in insertion order: lay the signature events out in both orders
            for ex in ([c["extras"]] if len(c["extras"]) < 2 else [c["extras"], c["extras"][::-1]]):
                cases.append((len(cases), dict(c, extras=ex), ("D" if len(cases) % 3 == 0 else None)))
        for _ in range(20000 if ctx.thorough else 3000):
            num, den = ctx.rng.choice([(4, 4), (3, 4), (6, 8), (2, 2), (9, 8), (1, 4), (5, 8), (7, 16)])
            cap = num * 96 // den
            notes, t = [], 0
            for _ in range(ctx.rng.randint(0, 5)):
                s = t + ctx.rng.choice([0, 3, 6, 12])
                e = s + ctx.rng.choice([3, 6, 12, 24])
                notes.append({"ch": 0, "p": ctx.rng.choice([60, 62, 64]), "s": s, "e": e, "v": 80})
                t = e if ctx.rng.random() < .7 else s
            extras = []
            r = ctx.rng.random()
            if r < .3:
                extras.append(P.ts(0, num, den))
            elif r < .45:
                extras.append(P.ts(ctx.rng.choice([0, 6]), *ctx.rng.choice([(4, 4), (3, 4), (6, 8)])))
            elif r < .55:
                extras += [P.ts(0, num, den), P.ts(ctx.rng.choice([6, 12]), *ctx.rng.choice([(num, den), (5, 4)]))]
            elif r < .65:
                tk = ctx.rng.choice([0, 0, 6])
                extras += [P.ts(tk, *sg) for sg in ctx.rng.sample([(num, den), (num, den), (5, 4), (3, 8)], ctx.rng.choice([2, 3]))]
            if ctx.rng.random() < .3:
                extras.append(P.ks(0, ctx.rng.choice(["C", "A", "Bb"])))
            c = {"notes": notes, "extras": extras, "dur": ctx.rng.choice([0, cap - 1, cap, cap + 1, cap * 2, cap * 24]),
                 "num": num, "den": den}
            cases.append((len(cases), c, ctx.rng.choice([None, "C", "F#"])))
    if not ctx.replay:
        # raw relative lists: never-closed notes, orphan note-offs, signatures directly behind them
        alpha = [P.on(-1, 0, 60, 80), P.off(-1, 0, 60), P.on(-1, 0, 62, 70), P.on(-1, 0, 64, 70), P.off(-1, 0, 62), P.wait(24), P.wait(48),
                 P.wait(12), P.ts(-1, 3, 4), P.ts(-1, 4, 4), P.ks(-1, "G")]
        for _ in range(6000 if ctx.thorough else 900):
            num, den = ctx.rng.choice([(4, 4), (3, 4), (6, 8)])
            rel = [dict(ctx.rng.choice(alpha)) for _ in range(ctx.rng.randint(2, 9))]
            cases.append((len(cases), {"rel": rel, "num": num, "den": den}, ctx.rng.choice([None, "C"])))
    obs = pmap(ctor, cases, chunk=400)
    for i, o in enumerate(obs):
        o["id"] = i
    slim = [{k: v for k, v in o.items() if k != "case"} for o in obs]
    ver = ctx.validate("Trace_Bars", "Trace_Bars.cfg", slim, per_shard_min=200)
    acc = sum(1 for v in ver if v.get("info") == "accepted")
    if not ctx.replay and (acc == 0 or acc == len(ver)):
        raise core.MachineryError("vacuity: accepted and rejected constructions not both present")

    def nontrivial(o):
        return (o["num"], o["den"], o["key"], json.dumps(o["in"]))

    samples = [{"num": o["num"], "den": o["den"], "raised": o["raised"],
                "in": [(m["ty"], m["t"], m["p"], m["n"], m["d"]) for m in o["in"]]} for o in obs[5::max(1, len(obs) // 3)]][:3]
    return ctx.finish(list(zip(obs, ver)),
                      rule="constructor cases written by TLC from Bars.tla: 9 signatures x 20 note sets x 8 signature-event plans "
                           "(none, matching, conflicting, late, matching+conflicting, identical repeat, ...) x 7 durations "
                           "(empty, just below, at, just above the capacity, far above, capacity*PPQN), plus seeded random "
                           "cases; non-trivial = distinct (signature, key, input)",
                      nontrivial=nontrivial, samples=samples, finding_key=ctor_finding,
                      extra_cov={"accepted": acc, "rejected": len(ver) - acc})


def run_split(ctx, g):
    if ctx.replay:
        c = json.load(open(ctx.replay))["observation"]["case"]
        cases = [(0, c["tracks"], c["metaIdx"], c["qnl"]), (1, c["tracks"], c["metaIdx"], c["qnl"])]
    else:
        ctx.model_check("MC_Bars", "MC_Bars.cfg", expect_actions=["EmitBar"])
        metas, durs, scores = g["metaTracks"], g["durations"], g["trackScores"]
        cases = []
        rng = ctx.rng
        n = 40000 if ctx.thorough else 5000
        empty = {"notes": [], "extras": [], "dur": 0}
        # systematic: every meta plan x every duration with one or two rotating scores
        k = 0
        for mi, meta in enumerate(metas):
            for d in durs:
                for rep in range(6 if ctx.thorough else 2):
                    a = scores[(k * 7 + rep * 131) % len(scores)]
                    b = scores[(k * 13 + rep * 17 + 5) % len(scores)]
                    k += 1
                    tr = [with_meta(a, meta, d), {"notes": b["notes"], "extras": [], "dur": [0, d, d // 2, d + 50][rep % 4]}]
                    if rep % 3 == 2:
                        tr.append(dict(empty))
                    for qnl in (False, True):
                        cases.append((len(cases), tr, 0, qnl))
        while len(cases) < n:
            meta = rng.choice(metas)
            nt = rng.randint(1, 3)
            mi = rng.randrange(nt)
            tr = []
            for i in range(nt):
                sc = rng.choice(scores) if rng.random() < .85 else empty
                d = rng.choice(durs)
                tr.append(with_meta(sc, meta, d) if i == mi else {"notes": sc["notes"], "extras": [], "dur": d})
            if all(not t["notes"] and t["dur"] == 0 for t in tr):
                continue
            cases.append((len(cases), tr, mi, rng.random() < .5))
    if ctx.fixtures and not ctx.replay:
        from harness import fixtures
        sl = fixtures.slices("quantised")
        for a, b in zip(sl, sl[1:]):
            ta = {"notes": a["notes"], "extras": [m for m in a["extras"] if m["t"] == 0], "dur": a["dur"]}
            tb = {"notes": b["notes"], "extras": [], "dur": b["dur"]}
            for qnl in (False, True):
                cases.append((len(cases), [ta, tb], 0, qnl))
    obs = pmap(split_bars, cases, chunk=200)
    for i, o in enumerate(obs):
        o["id"] = i
    slim = [{k: v for k, v in o.items() if k != "case"} for o in obs]
    ver = ctx.validate("Trace_Bars", "Trace_Bars.cfg", slim, per_shard_min=100)
    judged = sum(1 for v in ver if v.get("info") == "judged")
    if not ctx.replay and judged < len(ver) // 2:
        raise core.MachineryError(f"vacuity: only {judged} of {len(ver)} generated inputs are inside C09's domain")

    def nontrivial(o):
        if not o["bars"] or len(o["bars"][0]) < 2:
            return None
        return (o["metaIdx"], o["qnl"], json.dumps(o["tracks"]))

    samples = [{"metaIdx": o["metaIdx"], "qnl": o["qnl"],
                "tracks": [[(m["ty"], m["t"], m["p"], m["n"], m["d"]) for m in t] for t in o["tracks"]],
                "bar_lengths": [[sum(m["t"] for m in b["rel"] if m["ty"] == "wait") for b in tb] for tb in o["bars"]]}
               for o in obs[3::max(1, len(obs) // 3)]][:3]
    return ctx.finish(list(zip(obs, ver)),
                      rule="inputs formed from the factors written by TLC from Bars.tla: 8 boundary-aligned signature/key plans x 13 "
                           "durations x 516 track scores (notes inside bars, on and across bar lines), 1-3 tracks of unequal "
                           "length incl. empty ones, any track as meta track, both re-quantisation settings; non-trivial = "
                           "distinct input yielding at least two bars",
                      nontrivial=nontrivial, samples=samples, extra_cov={"judged_in_domain": judged})
