"""X03 (extension): Track - one instrument per track (program-change consistency), bars laid end to end, copies."""
import json

from harness import core, project as P
from harness.common import pmap

core.import_scoda()
from scoda.elements.bar import Bar  # noqa: E402
from scoda.elements.track import Track  # noqa: E402
from scoda.exceptions.track_exception import TrackException  # noqa: E402


def execute(case):
    idx, bodies = case
    line = {"bars": [], "raised": "", "program": -1, "joined": [], "copyProgram": -1, "copyJoined": [], "case": {"bodies": bodies}}
    try:
        bars = [Bar(P.seq_from_rel(b), 4, 4) for b in bodies]
        line["bars"] = [P.raw_rel(b.sequence) for b in bars]
        try:
            tr = Track(bars, name="t")
        except TrackException:
            line["raised"] = "TrackException"
            return line
        line["program"] = P._int(tr.program)
        line["joined"] = P.raw_rel(tr.to_sequence())
        cp = tr.copy()
        line["copyProgram"] = P._int(cp.program)
        line["copyJoined"] = P.raw_rel(cp.to_sequence())
        # the copy is independent: changing it leaves the track as it was
        for b in cp.bars:
            b.transpose(3)
        if P.raw_rel(tr.to_sequence()) != line["joined"]:
            line["raised"] = "copy shares state with the track"
    except Exception as e:
        line["raised"] = f"{type(e).__name__}: {e}"
    return line


def run(ctx):
    if ctx.replay:
        cases = [(0, json.load(open(ctx.replay))["observation"]["case"]["bodies"])]
    else:
        ctx.model_check("MC_TrackProgram", "MC_TrackProgram.cfg", expect_actions=["ScanBar", "Decide"])
        rng = ctx.rng
        cases = []
        for _ in range(20000 if ctx.thorough else 3000):
            progs = rng.choice([[5], [5], [5, 7], [0, 127], []])
            bodies = []
            for _ in range(rng.randint(0, 4)):
                body, t = [], 0
                if progs and rng.random() < .5:
                    body.append(P.pc(-1, rng.choice(progs)))
                for _ in range(rng.randint(0, 3)):
                    p = rng.choice([60, 64, 67])
                    d = rng.choice([12, 24])
                    if t + d > 96:
                        break
                    body += [P.on(-1, 0, p, 80), P.wait(d), P.off(-1, 0, p)]
                    t += d
                    if progs and rng.random() < .15:
                        body.append(P.pc(-1, rng.choice(progs)))
                bodies.append(body)
            cases.append((len(cases), bodies))
    obs = pmap(execute, cases, chunk=300)
    for i, o in enumerate(obs):
        o["id"] = i
    slim = [{k: v for k, v in o.items() if k != "case"} for o in obs]
    ver = ctx.validate("Trace_TrackProgram", "Trace_TrackProgram.cfg", slim, per_shard_min=200)
    rej = sum(1 for v in ver if v.get("rejected"))
    # vacuity is judged on the inputs (not on what the code did): tracks with and without conflicting programs
    conflicting = sum(1 for o in obs if len({m["p"] for b in o["case"]["bodies"] for m in b if m["ty"] == "pc"}) > 1)
    if not ctx.replay and (conflicting == 0 or conflicting == len(obs)):
        raise core.MachineryError("vacuity: inputs with and without conflicting programs not both present")

    def nontrivial(o):
        return json.dumps(o["case"]["bodies"]) if o["case"]["bodies"] else None

    samples = [{"programs": [[m["p"] for m in b if m["ty"] == "pc"] for b in o["bars"]], "raised": o["raised"], "program": o["program"]}
               for o in obs[2::max(1, len(obs) // 3)]][:3]
    return ctx.finish(list(zip(obs, ver)),
                      rule="seeded random tracks of 0-4 bars (4/4) with 0-2 distinct programs among their program-change messages, "
                           "notes of 12 / 24 ticks; the reference scan system is model-checked over all lists of <= 3 bars of 5 bodies; "
                           "non-trivial = distinct non-empty list of bar bodies",
                      nontrivial=nontrivial, samples=samples, extra_cov={"rejected": rej})
