CONSTANT Configs <- MC_Configs
CONSTANT PiecesOf <- MC_PiecesC03
CONSTANT Defect <- NoDefect
INIT InitC03
NEXT Next
INVARIANT TokeniseSucceeds
INVARIANT VocabClosed
INVARIANT LockStep
INVARIANT RoundTrip
INVARIANT ChunkInvariance
CHECK_DEADLOCK FALSE
