CONSTANT MaxObjects <- T_Zero
CONSTANT MaxOps <- T_Zero
CONSTANT Defect <- T_Empty
INIT TraceInit
NEXT TraceNext
POSTCONDITION TraceAccepted
CHECK_DEADLOCK FALSE
