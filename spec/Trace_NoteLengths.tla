-------------------------- MODULE Trace_NoteLengths --------------------------
EXTENDS NoteLengths, TraceBase
T_Empty == {}
Verdict(r) == IF r.raised # "" THEN <<"raised">>
              ELSE IF r.entry = "bars"
                   THEN Fails(<< <<"allowed-duration-through-bar-splitting",
                                   \A x \in Notes(AbsEvents(r.out)) : (x.e - x.s) \in SetOfSeq(r.values)>> >>)
              ELSE IF ~(WellFormed(AbsEvents(r.in)) /\ NoOverlap(Notes(AbsEvents(r.in)))) THEN <<>>
              ELSE Fails(NoteLengthClauses(r.in, r.values, r.noExtend, r.out) \o << <<"views-agree", SameContent(r.out, r.outRel)>> >>)
TraceInit == /\ TraceStart /\ score = <<>> /\ values = <<>> /\ noExtend = FALSE /\ todo = {} /\ kept = {}
TraceNext == HasLine /\ Advance /\ UNCHANGED vars
             /\ Emit([id |-> Line.id, fails |-> Verdict(Line),
                      removed |-> Cardinality(Notes(AbsEvents(Line.in))) - Cardinality(Notes(AbsEvents(Line.out)))])
=============================================================================
