---------------------------- MODULE Gen_Pairings ----------------------------
(* The initial states of the reference system: every canonical event list of the model's alphabet up to its bound. *)
EXTENDS MC_Pairings, Json, TLC
GenInit == src = <<>> /\ len = 0 /\ pos = 1 /\ open = <<>> /\ out = <<>> /\ phase = "done"
GenNext == UNCHANGED vars
ASSUME ndJsonSerialize(IOEnv.GEN_FILE, <<[inputs |-> SetToSeq(MC_Inputs), lengths |-> SetToSeq(MC_Lengths)]>>)
=============================================================================
