CONSTANT Intervals <- Intervals_T
INIT TraceInit
NEXT TraceNext
POSTCONDITION TraceAccepted
CHECK_DEADLOCK FALSE
