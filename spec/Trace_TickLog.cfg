CONSTANT MaxLen <- T_Max
CONSTANT Defect <- T_Empty
INIT TraceInit
NEXT TraceNext
POSTCONDITION TraceAccepted
CHECK_DEADLOCK FALSE
