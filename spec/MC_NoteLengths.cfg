CONSTANT Scores <- MC_Scores
CONSTANT ValueLists <- MC_ValueLists
INIT LInit
NEXT LNext
INVARIANT MeetsAcceptor
INVARIANT NoCollision
CHECK_DEADLOCK FALSE
