CONSTANT MetaTracks <- MC_MetaTracks
CONSTANT Durations <- MC_Durations
INIT BInit
NEXT BNext
INVARIANT GridContiguous
INVARIANT GridMatchesDefinition
INVARIANT CoverageInv
INVARIANT SignatureInForceInv
CHECK_DEADLOCK FALSE
