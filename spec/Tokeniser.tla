------------------------------ MODULE Tokeniser ------------------------------
(***************************************************************************)
(* C01 C02 C03 C19.  The note-like tokeniser as three clock automata that   *)
(* must stay in lock-step:                                                   *)
(*   tokenise   (events of a call -> tokens; state carried between calls)    *)
(*   detokenise (tokens -> notes, bar lines, signature events)               *)
(*   annotate   (tokens -> position / time / in-bar time / pitch)            *)
(* plus the vocabulary of a configuration.                                   *)
(*                                                                           *)
(* Abstract tokens are records [k, a, trk, pit, val, vel] (-1 = absent):     *)
(*   k = "rest" (a = ticks), "bar", "tsg" (a = eighths per bar), "trk" /     *)
(*   "val" / "vel" (a = running value), "note" (fused parts), "pad", "sta",  *)
(*   "sto".                                                                  *)
(***************************************************************************)
EXTENDS Integers, Sequences, FiniteSets, SequencesExt, FiniteSetsExt, Functions

Tok(k, a) == [k |-> k, a |-> a, trk |-> -1, pit |-> -1, val |-> -1, vel |-> -1]
NoteTok(trk, pit, val, vel) == [k |-> "note", a |-> -1, trk |-> trk, pit |-> pit, val |-> val, vel |-> vel]

(* a configuration: [ppqn, tracks, pitLo, pitHi, steps (set), values (set), bins (ascending seq), tsLo, tsHi,
                     running, fuseTrk, fuseVal, fuseVel] *)
RangeOf(q) == {q[i] : i \in DOMAIN q}
MaxS(S) == CHOOSE x \in S : \A y \in S : y <= x
MinS(S) == CHOOSE x \in S : \A y \in S : x <= y
BinValue(cfg, v) == cfg.bins[MinS({i \in DOMAIN cfg.bins : v <= cfg.bins[i]})]
BarCap(cfg, n, d) == (cfg.ppqn * 4 * n) \div d
DefaultSig == <<8, 8>>

(* ---------------------------------------------------------------- vocabulary *)
Vocab(cfg) ==
    {Tok("pad", -1), Tok("sta", -1), Tok("sto", -1), Tok("bar", -1)}
    \cup {Tok("rest", s) : s \in cfg.steps}
    \cup (IF cfg.fuseTrk THEN {} ELSE {Tok("trk", t) : t \in 0 .. (cfg.tracks - 1)})
    \cup (IF cfg.fuseVal THEN {} ELSE {Tok("val", v) : v \in cfg.values})
    \cup (IF cfg.fuseVel THEN {} ELSE {Tok("vel", cfg.bins[i]) : i \in DOMAIN cfg.bins})
    \cup {NoteTok(t, p, v, b) : t \in (IF cfg.fuseTrk THEN 0 .. (cfg.tracks - 1) ELSE {-1}),
                                p \in cfg.pitLo .. cfg.pitHi,
                                v \in (IF cfg.fuseVal THEN cfg.values ELSE {-1}),
                                b \in (IF cfg.fuseVel THEN {cfg.bins[i] : i \in DOMAIN cfg.bins} ELSE {-1})}
    \cup {Tok("tsg", e) : e \in cfg.tsLo .. cfg.tsHi}
VocabSize(cfg) == Cardinality(Vocab(cfg))

(* ---------------------------------------------------------------- tokenise *)
(* carried state: [clock, barPos, capTotal, capRem, sig, pTrk, pVal, pVel]; `out` is the token list of the call *)
FreshCarry(cfg) == [clock |-> 0, barPos |-> 0, capTotal |-> BarCap(cfg, 8, 8), capRem |-> BarCap(cfg, 8, 8),
                    sig |-> DefaultSig, pTrk |-> -1, pVal |-> -1, pVel |-> -1]
(* greedy rest decomposition with bar tokens; `ok` turns FALSE when a remainder is below the smallest step *)
RECURSIVE Rest(_, _, _, _)
Rest(cfg, st, out, buf) ==
    IF buf <= 0 THEN [st |-> st, out |-> out, ok |-> TRUE]
    ELSE LET nxt == IF buf <= st.capRem THEN buf ELSE st.capRem
             fit == {s \in cfg.steps : s <= nxt}
         IN IF fit = {} THEN [st |-> st, out |-> out, ok |-> FALSE]
            ELSE LET r == MaxS(fit)
                     endBar == st.capRem - r = 0
                     st2 == [st EXCEPT !.clock = @ + r,
                                       !.barPos = IF endBar THEN 0 ELSE @ + r,
                                       !.capRem = IF endBar THEN st.capTotal ELSE @ - r]
                     out2 == Append(out, Tok("rest", r)) \o (IF endBar THEN <<Tok("bar", -1)>> ELSE <<>>)
                 IN Rest(cfg, st2, out2, buf - r)
(* an event of a call: [t, kind ("note"|"ts"|"cap"), trk, pit, val, vel, n, d]; t is relative to the call *)
NoteTokens(cfg, st, e) ==
    LET b == BinValue(cfg, e.vel)
        sTrk == IF ~cfg.fuseTrk /\ (e.trk # st.pTrk \/ ~cfg.running) THEN <<Tok("trk", e.trk)>> ELSE <<>>
        sVal == IF ~cfg.fuseVal /\ (e.val # st.pVal \/ ~cfg.running) THEN <<Tok("val", e.val)>> ELSE <<>>
        sVel == IF ~cfg.fuseVel /\ (b # st.pVel \/ ~cfg.running) THEN <<Tok("vel", b)>> ELSE <<>>
    IN sTrk \o sVal \o sVel
       \o <<NoteTok(IF cfg.fuseTrk THEN e.trk ELSE -1, e.pit, IF cfg.fuseVal THEN e.val ELSE -1, IF cfg.fuseVel THEN b ELSE -1)>>
TokEvent(cfg, acc, e, shift) ==
    LET r == Rest(cfg, acc.st, acc.out, (e.t + shift) - acc.st.clock)
        st == r.st
    IN IF ~acc.ok \/ ~r.ok THEN [acc EXCEPT !.ok = FALSE]
       ELSE IF e.kind = "note"
            THEN [st |-> [st EXCEPT !.pTrk = e.trk, !.pVal = e.val, !.pVel = BinValue(cfg, e.vel)],
                  out |-> r.out \o NoteTokens(cfg, st, e), ok |-> TRUE]
       ELSE IF e.kind = "ts"
            THEN IF st.barPos > 0 THEN [st |-> st, out |-> r.out, ok |-> TRUE]      \* mid-bar change: skipped
                 ELSE [st |-> [st EXCEPT !.sig = <<e.n, e.d>>, !.capTotal = BarCap(cfg, e.n, e.d), !.capRem = BarCap(cfg, e.n, e.d)],
                       out |-> Append(r.out, Tok("tsg", (e.n * 8) \div e.d)), ok |-> TRUE]
       ELSE [st |-> st, out |-> r.out, ok |-> TRUE]                                  \* cap: only the rest before it
(* end of a call: the bar the clock is in is closed; then whole bars are filled until the clock has passed the last
   instant of the call's input (a note may still be sounding after the last event).  `CloseBarOnly` is the earlier
   as-built rule, which stopped after closing the bar. *)
CloseBarOnly(cfg, acc) == IF acc.ok /\ acc.st.barPos > 0 /\ acc.st.capRem > 0
                          THEN LET r == Rest(cfg, acc.st, acc.out, acc.st.capRem) IN [st |-> r.st, out |-> r.out, ok |-> r.ok]
                          ELSE acc
RECURSIVE FillBars(_, _, _, _)
FillBars(cfg, acc, upTo, fuel) ==
    IF ~acc.ok \/ acc.st.clock >= upTo \/ fuel = 0 THEN acc
    ELSE LET r == Rest(cfg, acc.st, acc.out, acc.st.capRem) IN FillBars(cfg, [st |-> r.st, out |-> r.out, ok |-> r.ok], upTo, fuel - 1)
LastInstantOf(events) == MaxS({0} \cup {IF events[j].kind = "note" THEN events[j].t + events[j].val ELSE events[j].t : j \in DOMAIN events})
EndCall(cfg, acc, lastInstant) == FillBars(cfg, CloseBarOnly(cfg, acc), lastInstant, 64)
(* one whole call: carried state in, (carried state, tokens) out *)
TokeniseCall(cfg, carry, events) ==
    EndCall(cfg, FoldLeft(LAMBDA a, e : TokEvent(cfg, a, e, carry.clock), [st |-> carry, out |-> <<>>, ok |-> TRUE], events),
            LastInstantOf(events) + carry.clock)

(* ---------------------------------------------------------------- detokenise *)
FreshD(cfg) == [clock |-> 0, barPos |-> 0, capTotal |-> BarCap(cfg, 8, 8), capRem |-> BarCap(cfg, 8, 8), sig |-> DefaultSig,
                trk |-> 0, val |-> 24, vel |-> 127, notes |-> {}, bars |-> <<>>, sigs |-> <<>>, placed |-> <<>>]
Simplified(sig) == IF sig[1] % 2 = 0 /\ sig[2] % 2 = 0 THEN <<sig[1] \div 2, sig[2] \div 2>> ELSE sig
Consume(cfg, d, tk) ==
    CASE tk.k = "bar" -> [d EXCEPT !.clock = @ + d.capRem, !.barPos = 0, !.capRem = d.capTotal,
                                   !.bars = Append(@, d.clock + d.capRem), !.placed = Append(@, -1)]
      [] tk.k = "rest" -> [d EXCEPT !.clock = @ + tk.a, !.barPos = @ + tk.a, !.capRem = @ - tk.a, !.placed = Append(@, -1)]
      [] tk.k = "trk" -> [d EXCEPT !.trk = tk.a, !.placed = Append(@, -1)]
      [] tk.k = "val" -> [d EXCEPT !.val = tk.a, !.placed = Append(@, -1)]
      [] tk.k = "vel" -> [d EXCEPT !.vel = tk.a, !.placed = Append(@, -1)]
      [] tk.k = "note" ->
            LET t == IF tk.trk # -1 THEN tk.trk ELSE d.trk
                v == IF tk.val # -1 THEN tk.val ELSE d.val
                b == IF tk.vel # -1 THEN tk.vel ELSE d.vel
            IN [d EXCEPT !.trk = t, !.val = v, !.vel = b,
                         !.notes = @ \cup {[trk |-> t, p |-> tk.pit, s |-> d.clock, e |-> d.clock + v, v |-> b]},
                         !.placed = Append(@, d.clock)]
      [] tk.k = "tsg" ->
            IF d.barPos > 0 THEN [d EXCEPT !.placed = Append(@, -1)]
            ELSE LET new == <<tk.a, 8>>
                     switched == d.sig # new
                     simp == Simplified(new)
                 IN [d EXCEPT !.sig = simp, !.capTotal = BarCap(cfg, new[1], new[2]), !.capRem = BarCap(cfg, new[1], new[2]),
                              !.sigs = IF switched \/ ~cfg.running THEN Append(@, <<d.clock, simp>>) ELSE @,
                              !.placed = Append(@, -1)]
      [] OTHER -> [d EXCEPT !.placed = Append(@, -1)]
Detok(cfg, toks) == FoldLeft(LAMBDA d, tk : Consume(cfg, d, tk), FreshD(cfg), toks)

(* ---------------------------------------------------------------- annotate (get_info) *)
FreshI(cfg) == [clock |-> 0, barPos |-> 0, capTotal |-> BarCap(cfg, 8, 8), capRem |-> BarCap(cfg, 8, 8),
                pos |-> <<>>, time |-> <<>>, timeBar |-> <<>>, pitch |-> <<>>]
Annotate(cfg, i, tk) ==
    LET rec == [i EXCEPT !.pos = Append(@, Len(i.pos)), !.time = Append(@, i.clock), !.timeBar = Append(@, i.barPos),
                         !.pitch = Append(@, IF tk.k = "note" THEN tk.pit ELSE -1)]
    IN CASE tk.k = "bar" -> [rec EXCEPT !.clock = @ + i.capRem, !.barPos = 0, !.capRem = i.capTotal]
         [] tk.k = "rest" -> [rec EXCEPT !.clock = @ + tk.a, !.barPos = @ + tk.a, !.capRem = @ - tk.a]
         [] tk.k = "tsg" -> IF i.barPos > 0 THEN rec
                            ELSE [rec EXCEPT !.capTotal = BarCap(cfg, tk.a, 8), !.capRem = BarCap(cfg, tk.a, 8)]
         [] OTHER -> rec
Info(cfg, toks) == FoldLeft(LAMBDA i, tk : Annotate(cfg, i, tk), FreshI(cfg), toks)

(* ---------------------------------------------------------------- pieces *)
(* a piece: [tracks (seq of sets of notes [p, s, e, v]), sigs (seq of <<tick, n, d>> on bar lines), end (last instant),
              cap (an end-of-sequence mark exists at `end`: trailing rest or bar padding), bars (made of whole bars)] *)
PieceEvents(piece) ==
    LET notes == UNION {{[t |-> x.s, kind |-> "note", trk |-> i - 1, pit |-> x.p, val |-> x.e - x.s, vel |-> x.v, n |-> -1, d |-> -1] :
                            x \in piece.tracks[i]} : i \in DOMAIN piece.tracks}
        sigs == {[t |-> piece.sigs[j][1], kind |-> "ts", trk |-> 0, pit |-> -1, val |-> -1, vel |-> -1,
                  n |-> piece.sigs[j][2], d |-> piece.sigs[j][3]] : j \in DOMAIN piece.sigs}
        cap == IF piece.cap THEN {[t |-> piece.end, kind |-> "cap", trk |-> 0, pit |-> -1, val |-> -1, vel |-> -1, n |-> -1, d |-> -1]}
               ELSE {}
        rank(e) == IF e.kind = "ts" THEN 0 ELSE IF e.kind = "note" THEN 1 ELSE 2
    IN SortSeq(SetToSeq(notes \cup sigs \cup cap),
               LAMBDA a, b : a.t < b.t \/ (a.t = b.t /\ rank(a) < rank(b))
                             \/ (a.t = b.t /\ rank(a) = rank(b) /\ a.trk < b.trk)
                             \/ (a.t = b.t /\ rank(a) = rank(b) /\ a.trk = b.trk /\ a.pit < b.pit))
(* bar lines implied by a list of signature changes <<tick, n, d>> (default 4/4 = 8/8 before any), up to and beyond `upTo` *)
RECURSIVE BarLines(_, _, _, _, _)
BarLines(cfg, sigs, t, upTo, acc) ==
    LET here == SelectSeq(sigs, LAMBDA s : s[1] <= t)
        sig == IF here = <<>> THEN DefaultSig ELSE <<here[Len(here)][2], here[Len(here)][3]>>
        len == BarCap(cfg, sig[1], sig[2])
    IN IF t >= upTo \/ len <= 0 \/ Len(acc) > 64 THEN acc ELSE BarLines(cfg, sigs, t + len, upTo, Append(acc, t + len))
ExpectedBarLines(cfg, piece) == BarLines(cfg, piece.sigs, 0, piece.end, <<>>)
EndOfLastBar(cfg, piece) == LET bl == ExpectedBarLines(cfg, piece) IN IF bl = <<>> THEN 0 ELSE bl[Len(bl)]
ExpectedNotes(cfg, piece) ==
    UNION {{[trk |-> i - 1, p |-> x.p, s |-> x.s, e |-> x.e, v |-> BinValue(cfg, x.v)] : x \in piece.tracks[i]} : i \in DOMAIN piece.tracks}
=============================================================================
