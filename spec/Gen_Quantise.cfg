CONSTANT Scores <- MC_Scores
CONSTANT StepLists <- MC_StepLists
CONSTANT Defect <- NoDefect
INIT GenInit
NEXT GenNext
