---------------------------- MODULE Trace_SeqViews ----------------------------
(***************************************************************************)
(* Validates histories executed on real Sequence objects against SeqViews. *)
(* One line per executed step (public call, or one fine-grained generator  *)
(* step).  `truth` is bound to the observed content: for a mutating step   *)
(* the content the same operation produces on a history-free object built  *)
(* from the pre-state content (`exp`), otherwise the previous content.     *)
(* A second kind of line ("conv") checks the two conversions.              *)
(***************************************************************************)
EXTENDS SeqViews, Music, TraceBase

T_NoDefect == {}
T_Max == 1000000

(* notes are paired in a canonical order (by tick, a note-off before a note-on of the same tick): a set_channel that
   fuses two channels can leave clashing notes, whose pairing in view order would depend on the view *)
CanonLess(a, b) == a.t < b.t \/ (a.t = b.t /\ a.ty = "off" /\ b.ty # "off")
ContentOf(evs, dur) == LET c == SortSeq(evs, CanonLess) IN
    [bag |-> EventBag(evs), dur |-> dur, notes |-> Notes(c),
     wf |-> Alternates(c) /\ NoOverlap(Notes(c)) /\ \A x \in Notes(c) : x.e > x.s]
ContentAbs(abs) == ContentOf(AbsEvents(abs), AbsDur(abs))
ContentRel(rel) == ContentOf(RelEvents(rel), RelDur(rel))
NoContent == [bag |-> <<>>, dur |-> -1, notes |-> {}, wf |-> FALSE]
ViewsContent(v) == IF v.readable THEN ContentAbs(v.abs) ELSE NoContent

IsMutating(op) == op \in Mutating \/ op = "iter_edit"

TraceStep ==
    LET r == Line
        st0 == IF r.first
               THEN [truth |-> ViewsContent(r.pre), absHolds |-> IF r.start.a THEN ViewsContent(r.pre) ELSE Nothing,
                     relHolds |-> IF r.start.r THEN ViewsContent(r.pre) ELSE Nothing,
                     absFresh |-> r.start.a, relFresh |-> r.start.r, iter |-> "none"]
               ELSE s
        pa0 == ContentAbs(r.post.abs)
        (* the history-free twin is rebuilt from the projected content; when that content is ill-formed (set_channel fused
           two channels into clashing notes) an operation may legitimately depend on the order of equal-tick messages,
           which the projection does not fix: the oracle is then not used and the observed content is taken as the truth *)
        oracle == r.exp.readable /\ (st0.truth.wf \/ r.op = "iter_edit")   \* an in-turn edit's expectation is the iterated view itself
        (* two history-free twins: one rebuilt from the projected content, one a deep copy with both views refreshed (it keeps
           the object's own order of equal-tick messages); the operation's effect must equal one of them *)
        c1 == ViewsContent(r.exp)
        c2 == IF r.exp2.readable THEN ViewsContent(r.exp2) ELSE c1
        c == IF IsMutating(r.op) THEN (IF oracle THEN (IF pa0 = c2 THEN c2 ELSE c1) ELSE pa0) ELSE st0.truth
        st1 == IF r.op \in FineOps THEN ApplyFine(st0, r.op, c) ELSE Apply(st0, r.op, c)
        legal == (r.op \in FineOps \/ Enabled(st0, r.op)) /\ Readable(st1)
        pa == ContentAbs(r.post.abs)
        pr == ContentRel(r.post.rel)
        clauses == IF ~r.post.readable THEN << <<"readable", FALSE>> >>
                   ELSE << <<"views-agree.events", pa.bag = pr.bag>>,
                           <<"views-agree.duration", pa.dur = pr.dur>>,
                           <<"views-agree.notes", pa.notes = pr.notes>>,
                           <<"effect-visible.abs", (~IsMutating(r.op) \/ oracle) => pa = c>>,
                           <<"effect-visible.rel", (~IsMutating(r.op) \/ oracle) => pr = c>>,
                           <<"op-raised-stale", ~r.stale_raised>>,
                           \* the public duration queries answer what the views hold (-1: the query raised, e.g. on an empty view)
                           <<"duration-queries-agree", "qdur" \in DOMAIN r.post =>
                                  /\ (r.post.qdur[1] >= 0 => r.post.qdur[1] = pa.dur)
                                  /\ (r.post.qdur[2] >= 0 => r.post.qdur[2] = pr.dur)>> >>
        drift == r.bits # <<>> /\ (r.bits[1] # ~st1.absFresh \/ r.bits[2] # ~st1.relFresh)
    IN /\ s' = st1
       /\ last' = r.op
       /\ Emit([id |-> r.id, fails |-> IF legal THEN Fails(clauses) ELSE <<>>, illegal |-> ~legal, drift |-> drift])

(* conversion lines: src/out are raw views, dir says which conversion the real code performed *)
ConvVerdict(r) ==
    LET a == IF r.dir = "abs2rel" THEN ContentAbs(r.src) ELSE ContentRel(r.src)
        b == IF r.dir = "abs2rel" THEN ContentRel(r.out) ELSE ContentAbs(r.out)
    IN Fails(<< <<"conversion.events", a.bag = b.bag>>, <<"conversion.duration", a.dur = b.dur>>,
                <<"conversion.notes", a.notes = b.notes>> >>)
TraceConv == /\ UNCHANGED vars
             /\ Emit([id |-> Line.id, fails |-> ConvVerdict(Line), illegal |-> FALSE, drift |-> FALSE])

TraceInit == TraceStart /\ last = "init"
             /\ s = [truth |-> NoContent, absHolds |-> Nothing, relHolds |-> Nothing, absFresh |-> TRUE,
                     relFresh |-> TRUE, iter |-> "none"]
TraceNext == HasLine /\ Advance /\ IF Line.kind = "conv" THEN TraceConv ELSE TraceStep
=============================================================================
