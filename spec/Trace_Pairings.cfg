CONSTANT Inputs <- T_Empty
CONSTANT Lengths <- T_Empty
INIT TraceInit
NEXT TraceNext
POSTCONDITION TraceAccepted
CHECK_DEADLOCK FALSE
