----------------------------- MODULE Trace_Split -----------------------------
EXTENDS Split, TraceBase
T_Empty == {}
Verdict(r) == IF r.raised # "" THEN <<"raised">>
              ELSE IF ~(WellFormed(RelEvents(r.src)) /\ NoOverlap(Notes(RelEvents(r.src)))) THEN <<>>
              ELSE Fails(SplitClauses(r.src, r.caps, r.pieces, r.srcAfter, r.absBefore, r.absAfter))
TraceInit == /\ TraceStart /\ src = <<>> /\ caps = <<>> /\ work = <<>> /\ ci = 1 /\ rem = 0 /\ cur = <<>> /\ queue = <<>>
             /\ openT = <<>> /\ pieces = <<>> /\ phase = "done"
TraceNext == HasLine /\ Advance /\ UNCHANGED vars
             /\ Emit([id |-> Line.id, fails |-> Verdict(Line), npieces |-> Len(Line.pieces)])
=============================================================================
