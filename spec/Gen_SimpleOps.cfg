CONSTANT InitScores <- MC_Scores
CONSTANT Ops <- MC_Ops
CONSTANT MaxSteps <- MC_MaxSteps
INIT GenInit
NEXT GenNext
