CONSTANT Families <- MC_Families
INIT GenInit
NEXT GenNext
