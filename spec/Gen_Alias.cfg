CONSTANT MaxObjects <- MC_MaxObjects
CONSTANT MaxOps <- MC_MaxOps
CONSTANT Defect <- NoDefect
INIT GenInit
NEXT GenNext
