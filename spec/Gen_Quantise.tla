---------------------------- MODULE Gen_Quantise ----------------------------
(* Initial states of the reference system = Scores x StepLists; both factors are written out. *)
EXTENDS MC_Quantise, Json, TLC
GenInit == /\ src = <<>> /\ steps = <<>> /\ pos = 1 /\ openAt = <<>> /\ lastEnd = <<>> /\ out = <<>> /\ phase = "done"
GenNext == UNCHANGED vars
ASSUME ndJsonSerialize(IOEnv.GEN_FILE, <<[scores |-> SetToSeq(MC_Scores), steplists |-> SetToSeq(MC_StepLists)]>>)
=============================================================================
