---------------------------- MODULE Trace_Pairings ----------------------------
(* One line per call pair (get_message_pairings + get_interleaved_message_pairings) on a real sequence. *)
EXTENDS Pairings, TraceBase
T_Empty == {}
Verdict(r) == IF r.raised # "" THEN <<"raised">>
              ELSE Fails(PairingClauses(r.in, SetOfSeq(r.types), r.L, r.pairs, r.inter, r.after))
TraceInit == TraceStart /\ src = <<>> /\ len = 0 /\ pos = 1 /\ open = <<>> /\ out = <<>> /\ phase = "done"
TraceNext == HasLine /\ Advance /\ UNCHANGED vars
             /\ Emit([id |-> Line.id, fails |-> Verdict(Line), wf |-> WellFormed(Canon(AbsEvents(Line.in)))])
=============================================================================
