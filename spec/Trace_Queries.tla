---------------------------- MODULE Trace_Queries ----------------------------
EXTENDS Queries, TraceBase
T_Empty == {}
Norm(r) == [r EXCEPT !.types = SetOfSeq(r.types)]
Verdict(r) == IF r.raised # "" THEN <<"raised">> ELSE Fails(QueryClauses(Norm(r)))
TraceInit == TraceStart /\ src = <<>> /\ types = {} /\ pos = 1 /\ clock = 0 /\ chans = {} /\ struck = FALSE /\ hits = <<>> /\ phase = "done"
TraceNext == HasLine /\ Advance /\ UNCHANGED vars
             /\ Emit([id |-> Line.id, fails |-> Verdict(Line), multi |-> Cardinality(Channels(Line.rel)) > 1])
=============================================================================
