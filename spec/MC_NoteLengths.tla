--------------------------- MODULE MC_NoteLengths ---------------------------
EXTENDS NoteLengths, IOUtils
Thorough == "VERIF_TIER" \in DOMAIN IOEnv /\ IOEnv.VERIF_TIER = "thorough"
MC_ValueLists == {<<4>>, <<6, 4>>, <<4, 6>>, <<12, 8, 6, 4>>, <<2, 3>>, <<8>>, <<1, 2, 3, 4, 6, 8, 12, 16, 24>>}
Cands2 == NoteCands({0, 1}, {60, 61}, 0 .. (IF Thorough THEN 6 ELSE 3), {1, 2, 3, 5, 7}, {80})
Cands1 == NoteCands({0}, {60}, 0 .. (IF Thorough THEN 12 ELSE 9), {1, 2, 3, 5, 7}, {80}) \cup NoteCands({1}, {60}, {0, 3}, {3, 9}, {40})
MC_Scores == {[notes |-> N, extras |-> X, dur |-> 0] : N \in NoteSets(Cands2, 2), X \in {{}, {MTs(3, 0, 3, 4)}}}
             \cup {[notes |-> N, extras |-> {}, dur |-> 30] : N \in NoteSets(Cands1, IF Thorough THEN 3 ELSE 2)}
=============================================================================
