---------------------------- MODULE Gen_TickTypes ----------------------------
(* Every operation is always enabled, so the behaviours are Ops^k for k <= MaxLen; alphabet and bound are written. *)
EXTENDS MC_TickTypes, Json, SequencesExt
GenInit == kinds = {} /\ tokenKinds = {} /\ hist = <<>>
GenNext == UNCHANGED vars
ASSUME ndJsonSerialize(IOEnv.GEN_FILE, <<[ops |-> SetToSeq(Ops), maxLen |-> MC_MaxLen]>>)
=============================================================================
