------------------------------ MODULE SimpleOps ------------------------------
(***************************************************************************)
(* C18: pad, cut-off, integer scaling, channel assignment.                 *)
(* Abstract state: a score = [notes, extras, dur] (set of notes, set of    *)
(* timed non-note events, total duration).  Each public operation is one   *)
(* action; the acceptors say exactly what the property says.               *)
(***************************************************************************)
EXTENDS Inputs

ScoreOfEvents(evs, dur) ==
    [notes |-> Notes(evs), extras |-> SeqRange(NonNote(evs)), dur |-> dur, evs |-> evs, bag |-> EventBagCh(evs)]
Abstract(sc) == [notes |-> sc.notes, extras |-> sc.extras, dur |-> sc.dur]
ScoreOfRel(rel) == ScoreOfEvents(RelEvents(rel), RelDur(rel))
ScoreOfAbs(abs) == ScoreOfEvents(AbsEvents(abs), AbsDur(abs))
LastEvent(sc) == MaxOf({x.e : x \in sc.notes} \cup {m.t : m \in sc.extras}, 0)

(* ---- the operations of the reference system ---- *)
PadRef(sc, n) == [sc EXCEPT !.dur = Max2(sc.dur, n)]
CutNote(x, m, r) == IF x.e - x.s > m THEN [x EXCEPT !.e = x.s + r] ELSE x
CutoffRef(sc, m, r) ==
    LET N == {CutNote(x, m, r) : x \in sc.notes}
        capped == sc.dur > LastEvent(sc)
        sc2 == [sc EXCEPT !.notes = N]
    IN [sc2 EXCEPT !.dur = IF capped THEN sc.dur ELSE LastEvent(sc2)]
ScaleRef(sc, k) == [notes |-> {[x EXCEPT !.s = @ * k, !.e = @ * k] : x \in sc.notes},
                    extras |-> {[m EXCEPT !.t = @ * k] : m \in sc.extras},
                    dur |-> sc.dur * k]
SetChannelRef(sc, c) == [notes |-> {[x EXCEPT !.ch = c] : x \in sc.notes},
                         extras |-> {[m EXCEPT !.ch = c] : m \in sc.extras},
                         dur |-> sc.dur]
ApplyOp(sc, o) == CASE o.op = "pad" -> PadRef(sc, o.a)
                    [] o.op = "cutoff" -> CutoffRef(sc, o.a, o.b)
                    [] o.op = "scale" -> ScaleRef(sc, o.a)
                    [] o.op = "set_channel" -> SetChannelRef(sc, o.a)

(* ---- acceptors: the property, clause by clause, on observed pre/post scores ---- *)
BlankCh(sc) == [notes |-> {[x EXCEPT !.ch = 0] : x \in sc.notes},
                extras |-> {[m EXCEPT !.ch = 0] : m \in sc.extras}, dur |-> sc.dur]
PadClauses(pre, n, post) ==
    << <<"pad.events-untouched", post.notes = pre.notes /\ post.extras = pre.extras>>,
       <<"pad.duration-max", post.dur = Max2(pre.dur, n)>> >>
CutoffClauses(pre, m, r, post) ==
    << <<"cutoff.long-notes-shortened", \A x \in pre.notes : x.e - x.s > m => [x EXCEPT !.e = x.s + r] \in post.notes>>,
       <<"cutoff.other-notes-kept", \A x \in pre.notes : x.e - x.s <= m => x \in post.notes>>,
       <<"cutoff.nothing-else", post.notes \subseteq {CutNote(x, m, r) : x \in pre.notes}>>,
       <<"cutoff.non-note-untouched", post.extras = pre.extras>> >>
ScaleClauses(pre, k, post) ==
    << <<"scale.notes", post.notes = ScaleRef(pre, k).notes>>,
       <<"scale.events", post.extras = ScaleRef(pre, k).extras>>,
       <<"scale.duration", post.dur = pre.dur * k>> >>
(* set_channel may fuse two channels into an ill-formed result, so it is judged on the event multiset *)
SetChannelClauses(pre, c, post) ==
    << <<"set_channel.all-on-channel", \A m \in DOMAIN post.bag : m.ch = c>>,
       <<"set_channel.nothing-else", post.bag = BagOfSeq([i \in DOMAIN pre.evs |-> [EvCh(pre.evs[i]) EXCEPT !.ch = c]])>>,
       <<"set_channel.duration", post.dur = pre.dur>> >>
OpClauses(pre, o, post) == CASE o.op = "pad" -> PadClauses(pre, o.a, post)
                             [] o.op = "cutoff" -> CutoffClauses(pre, o.a, o.b, post)
                             [] o.op = "scale" -> ScaleClauses(pre, o.a, post)
                             [] o.op = "set_channel" -> SetChannelClauses(pre, o.a, post)
AllHold(cl) == \A i \in DOMAIN cl : cl[i][2]

ScoreWellFormed(sc) == /\ NoOverlap(sc.notes)
                       /\ \A x \in sc.notes : x.e > x.s /\ x.s >= 0
                       /\ sc.dur >= LastEvent(sc)

(* ---- reference transition system ---- *)
CONSTANTS InitScores, Ops, MaxSteps
VARIABLES score, steps, lastOp, prev
vars == <<score, steps, lastOp, prev>>
SInit == score \in InitScores /\ steps = 0 /\ lastOp = [op |-> "none", a |-> 0, b |-> 0] /\ prev = score
Do(o) == /\ steps < MaxSteps
         /\ score' = ApplyOp(score, o)
         /\ prev' = score
         /\ lastOp' = o
         /\ steps' = steps + 1
DoPad == \E o \in {x \in Ops : x.op = "pad"} : Do(o)
DoCutoff == \E o \in {x \in Ops : x.op = "cutoff"} : Do(o)
DoScale == \E o \in {x \in Ops : x.op = "scale"} : Do(o)
DoSetChannel == \E o \in {x \in Ops : x.op = "set_channel"} : Do(o)
SNext == DoPad \/ DoCutoff \/ DoScale \/ DoSetChannel

(* the design keeps scores well-formed and satisfies its own acceptors *)
Render(sc) == ScoreOfRel(RelOfNotes(sc.notes, sc.extras, sc.dur))
StaysWellFormed == (lastOp.op # "set_channel" /\ ScoreWellFormed(prev)) => ScoreWellFormed(score)
(* the set abstraction cannot represent two channels fused into clashing notes; there the model claims nothing *)
Representable == ScoreWellFormed(score) /\ Cardinality(score.notes) = Cardinality(prev.notes)
MeetsAcceptor == (lastOp.op # "none" /\ ScoreWellFormed(prev) /\ Representable)
                     => AllHold(OpClauses(Render(prev), lastOp, Render(score)))
(* the concrete relative and absolute renderings describe the abstract score (conversion sanity) *)
RenderingFaithful ==
    LET rel == RelOfNotes(score.notes, score.extras, score.dur)
        abs == AbsOfNotes(score.notes, score.extras, score.dur)
    IN ScoreWellFormed(score) =>
       /\ Abstract(ScoreOfRel(rel)) = score
       /\ Abstract(ScoreOfAbs(abs)) = score
       /\ Abstract(ScoreOfRel(AbsToRel(abs))) = score
       /\ Abstract(ScoreOfAbs(RelToAbs(rel))) = score
=============================================================================
