---------------------------- MODULE Gen_Pipeline ----------------------------
EXTENDS MC_Pipeline, Json, TLC
GenInit == piece = <<>> /\ k = 1 /\ done = <<>> /\ rest = <<>> /\ joined = <<>> /\ file = <<>> /\ loaded = <<>> /\ stage = "loaded"
GenNext == UNCHANGED vars
ASSUME ndJsonSerialize(IOEnv.GEN_FILE, <<[pieces |-> SetToSeq({[src |-> SrcViews(pc), plan |-> pc.plan] : pc \in MC_Pieces})]>>)
=============================================================================
