---------------------------- MODULE MC_Transpose ----------------------------
EXTENDS Transpose, IOUtils
Thorough == "VERIF_TIER" \in DOMAIN IOEnv /\ IOEnv.VERIF_TIER = "thorough"
MC_Intervals == -25 .. 25
Cands == NoteCands({0}, {21, 22, 60, 107, 108}, {0, 4}, {4, 8}, {80}) \cup NoteCands({1}, {33, 96}, {2}, {4}, {50})
KeyExtras == {{}, {MKs(0, 0, "C")}, {MKs(0, 0, "F#"), MKs(8, 0, "Cb")}, {MKs(0, 0, "Db"), MTs(0, 0, 3, 4)}}
MC_Scores == {[notes |-> N, extras |-> X, dur |-> 16] : N \in NoteSets(Cands, IF Thorough THEN 3 ELSE 2), X \in KeyExtras}
MC_Pieces == {RelOfNotes(sc.notes, sc.extras, sc.dur) : sc \in MC_Scores}
MC_Shifts == {0, 1, -1, 5, -5, 7, -7, 12, -12, 13, -13, 24, -24, 87, -87, 88, -88, 100, -100}
=============================================================================
