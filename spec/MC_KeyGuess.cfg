CONSTANT Pieces <- MC_Pieces
INIT KInit
NEXT KNext
INVARIANT MeetsAcceptor
INVARIANT CountsRight
INVARIANT EmptyIsC
CHECK_DEADLOCK FALSE
