CONSTANT Alphabet <- MC_Alphabet
CONSTANT MaxLen <- MC_MaxLen
CONSTANT Defect <- NoDefect
INIT GenInit
NEXT GenNext
