CONSTANT Families <- MC_Families
INIT MInit
NEXT MNext
INVARIANT OrderIndependent
INVARIANT SoundIsUnion
INVARIANT FusedWellFormed
INVARIANT FusedMaximal
INVARIANT DurationIsMax
CHECK_DEADLOCK FALSE
