------------------------------ MODULE Pipeline ------------------------------
(***************************************************************************)
(* Extension X05: the Composition pipeline as ONE behaviour                 *)
(*   sequences --from_sequences--> tracks of bars --to_sequences--> joined  *)
(*   --copy--> --save--> MIDI file --sequences_load--> loaded               *)
(*   joined --from_sequences / to_sequences--> again                        *)
(* with the per-stage statements chained: bars are exactly as long as the   *)
(* signature in force on the meta track says, every track has the same      *)
(* number of bars, the joined sequence of a track sounds what the source    *)
(* track sounded (exactly when no note crosses a bar line and all durations  *)
(* are note values, a subset otherwise: notes are cut at bar lines), copies  *)
(* are equal, saving and loading keeps notes and signatures in force, and    *)
(* bar-splitting a joined composition again is a fixed point.                *)
(***************************************************************************)
EXTENDS Inputs

PPQ == 24
LenOf(sig) == BarLen(sig[1], sig[2], PPQ)
StartOf(plan, k) == SumSeq([j \in 1 .. (k - 1) |-> LenOf(plan[j])])
Total(plan) == StartOf(plan, Len(plan) + 1)
SoundOf(rel) == Sounding(RelEvents(rel), RelDur(rel))
NotesOf(rel) == Notes(RelEvents(rel))
(* a MIDI track is written on the channel of its messages, the property of saving and loading (C12) speaks of pitch, onset, duration, velocity *)
NoCh(N) == {[p |-> x.p, s |-> x.s, e |-> x.e, v |-> x.v] : x \in N}
(* the bar grid a meta view induces over `upTo` ticks: 4/4 until a signature says otherwise *)
RECURSIVE GridFrom(_, _, _)
GridFrom(evs, t, upTo) == IF t >= upTo THEN <<>>
                          ELSE LET sig == InForce(evs, "ts", t, <<4, 4>>) IN <<sig>> \o GridFrom(evs, t + LenOf(sig), upTo)
MaxDur(views) == MaxOf({RelDur(views[i]) : i \in DOMAIN views}, 0)
InsideBars(N, plan) == \A x \in N : \E k \in DOMAIN plan : StartOf(plan, k) <= x.s /\ x.e <= StartOf(plan, k) + LenOf(plan[k])

(* r: [src, meta (1-based), values (allowed note lengths), bars (per track: seq of relative views), sigs (per track: seq of <<n, d>>),
      joined, copyJoined, loaded, again] - all views relative *)
PipelineClauses(r) ==
    LET n == Len(r.src)
        plan == GridFrom(RelEvents(r.src[r.meta]), 0, MaxDur(r.src))
        friendly(i) == /\ WellFormed(RelEvents(r.src[i])) /\ InsideBars(NotesOf(r.src[i]), plan)
                       /\ \A x \in NotesOf(r.src[i]) : (x.e - x.s) \in r.values
    IN << <<"track-count", Len(r.bars) = n /\ Len(r.joined) = n /\ Len(r.copyJoined) = n /\ Len(r.loaded) = n /\ Len(r.again) = n>>,
          <<"bar-count-is-the-grid", \A i \in DOMAIN r.bars : Len(r.bars[i]) = Len(plan)>>,
          <<"bars-exact", \A i \in DOMAIN r.bars : \A k \in DOMAIN r.bars[i] :
                (k <= Len(plan)) => (RelDur(r.bars[i][k]) = LenOf(plan[k]) /\ r.sigs[i][k] = plan[k])>>,
          <<"joined-duration", \A i \in DOMAIN r.joined : RelDur(r.joined[i]) = Total(plan)>>,
          <<"joined-sound-subset", \A i \in DOMAIN r.joined : (i <= n) => SoundOf(r.joined[i]) \subseteq SoundOf(r.src[i])>>,
          <<"joined-sound-exact-when-bar-friendly", \A i \in DOMAIN r.joined : (i <= n /\ friendly(i)) =>
                NotesOf(r.joined[i]) = NotesOf(r.src[i])>>,
          <<"joined-states-signatures", \A i \in DOMAIN r.joined : \A k \in DOMAIN plan :
                InForce(RelEvents(r.joined[i]), "ts", StartOf(plan, k), <<0, 0>>) = plan[k]>>,
          <<"copy-equal", \A i \in DOMAIN r.joined : (i <= Len(r.copyJoined)) =>
                (EventBag(RelEvents(r.copyJoined[i])) = EventBag(RelEvents(r.joined[i])) /\ RelDur(r.copyJoined[i]) = RelDur(r.joined[i]))>>,
          <<"loaded-notes", \A i \in DOMAIN r.joined : (i <= Len(r.loaded)) => NoCh(NotesOf(r.loaded[i])) = NoCh(NotesOf(r.joined[i]))>>,
          <<"loaded-signatures-in-force", Len(r.loaded) >= 1 => \A k \in DOMAIN plan :
                InForce(RelEvents(r.loaded[1]), "ts", StartOf(plan, k), <<4, 4>>) = plan[k]>>,
          <<"resplit-fixed-point", \A i \in DOMAIN r.joined : (i <= Len(r.again)) =>
                (NotesOf(r.again[i]) = NotesOf(r.joined[i]) /\ RelDur(r.again[i]) = RelDur(r.joined[i]))>> >>

(* ---- reference system for bar-friendly pieces: cut bar by bar, join, save, load ---- *)
CONSTANTS Pieces        \* [tracks: seq of note sets, plan: seq of signatures]
VARIABLES piece, k, done, rest, joined, file, loaded, stage
vars == <<piece, k, done, rest, joined, file, loaded, stage>>
Shift(N, by) == {[x EXCEPT !.s = @ + by, !.e = @ + by] : x \in N}
PInit == /\ piece \in Pieces /\ k = 1 /\ done = [i \in DOMAIN piece.tracks |-> <<>>] /\ rest = piece.tracks
         /\ joined = <<>> /\ file = <<>> /\ loaded = <<>> /\ stage = "split"
CutBar == /\ stage = "split" /\ k <= Len(piece.plan)
          /\ LET a == StartOf(piece.plan, k)
                 b == a + LenOf(piece.plan[k])
             IN /\ done' = [i \in DOMAIN done |-> Append(done[i], Shift({x \in rest[i] : a <= x.s /\ x.s < b}, -a))]
                /\ rest' = [i \in DOMAIN rest |-> {x \in rest[i] : ~(a <= x.s /\ x.s < b)}]
          /\ k' = k + 1 /\ UNCHANGED <<piece, joined, file, loaded, stage>>
Join == /\ stage = "split" /\ k > Len(piece.plan)
        /\ joined' = [i \in DOMAIN done |-> UNION {Shift(done[i][j], StartOf(piece.plan, j)) : j \in DOMAIN done[i]}]
        /\ stage' = "joined" /\ UNCHANGED <<piece, k, done, rest, file, loaded>>
(* the file holds delta-timed events per track; here: the notes with their absolute ticks *)
Save == /\ stage = "joined" /\ file' = joined /\ stage' = "saved" /\ UNCHANGED <<piece, k, done, rest, joined, loaded>>
Load == /\ stage = "saved" /\ loaded' = file /\ stage' = "loaded" /\ UNCHANGED <<piece, k, done, rest, joined, file>>
PNext == CutBar \/ Join \/ Save \/ Load
Conservation == stage = "split" =>
    \A i \in DOMAIN rest : rest[i] \cup UNION {Shift(done[i][j], StartOf(piece.plan, j)) : j \in DOMAIN done[i]} = piece.tracks[i]
BarsHoldTheirNotes == \A i \in DOMAIN done : \A j \in DOMAIN done[i] : \A x \in done[i][j] : 0 <= x.s /\ x.e <= LenOf(piece.plan[j])
NothingLeft == stage # "split" => \A i \in DOMAIN rest : rest[i] = {}
EndToEnd == /\ stage \in {"joined", "saved", "loaded"} => joined = piece.tracks
            /\ stage = "loaded" => loaded = piece.tracks
=============================================================================
