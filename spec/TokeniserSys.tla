---------------------------- MODULE TokeniserSys ----------------------------
(***************************************************************************)
(* Transition system over the automata of Tokeniser.tla: a valid piece is    *)
(* tokenised in consecutive calls of whole bars (any partition of its bars,  *)
(* one carried state), the concatenated stream is then consumed token by     *)
(* token by the detokenise and annotate automata running in lock-step.       *)
(***************************************************************************)
EXTENDS Tokeniser

CONSTANTS Configs, PiecesOf(_), Defect
VARIABLES cfg, piece, cuts, nc, phase, ci, ei, evs, carry, acc, toks, ti, d, inf
vars == <<cfg, piece, cuts, nc, phase, ci, ei, evs, carry, acc, toks, ti, d, inf>>

(* chunk boundaries: 0, the chosen interior bar lines, the end of the last bar *)
Lines == ExpectedBarLines(cfg, piece)
Bounds == <<0>> \o SelectSeq(Lines, LAMBDA b : b \in cuts \/ b = Lines[Len(Lines)])
(* two ways of cutting a piece into chunks of whole bars: as Bar objects (every bar restarts with its signature event)
   or by plain splitting at the chosen bar lines (only the piece's own signature events; marker -2 in `cuts`) *)
PlainSplit == -2 \in cuts
NChunks == Len(Bounds) - 1
(* events of chunk k, times relative to its start; like bars, every bar inside the chunk starts with a signature
   event and the chunk is capped at its full length; a single call over the whole piece sees the piece as it is *)
SigAt(t) == LET here == SelectSeq(piece.sigs, LAMBDA s : s[1] <= t) IN
            IF here = <<>> THEN <<4, 4>> ELSE <<here[Len(here)][2], here[Len(here)][3]>>
ChunkEvents(k) ==
    LET lo == Bounds[k] hi == Bounds[k + 1]
        base == SelectSeq(PieceEvents(piece), LAMBDA e : e.kind = "note" /\ lo <= e.t /\ e.t < hi)
        starts == {lo} \cup {b \in RangeOf(Lines) : lo < b /\ b < hi}
        own == {[t |-> piece.sigs[j][1], kind |-> "ts", trk |-> 0, pit |-> -1, val |-> -1, vel |-> -1,
                 n |-> piece.sigs[j][2], d |-> piece.sigs[j][3]] : j \in {q \in DOMAIN piece.sigs : lo <= piece.sigs[q][1] /\ piece.sigs[q][1] < hi}}
        sigs == IF PlainSplit THEN own
                ELSE {[t |-> b, kind |-> "ts", trk |-> 0, pit |-> -1, val |-> -1, vel |-> -1, n |-> SigAt(b)[1], d |-> SigAt(b)[2]] : b \in starts}
        cap == {[t |-> hi, kind |-> "cap", trk |-> 0, pit |-> -1, val |-> -1, vel |-> -1, n |-> -1, d |-> -1]}
        rank(e) == IF e.kind = "ts" THEN 0 ELSE IF e.kind = "note" THEN 1 ELSE 2
        all == SortSeq(SetToSeq(RangeOf(base) \cup sigs \cup cap),
                       LAMBDA a, b : a.t < b.t \/ (a.t = b.t /\ rank(a) < rank(b))
                                     \/ (a.t = b.t /\ rank(a) = rank(b) /\ a.trk < b.trk)
                                     \/ (a.t = b.t /\ rank(a) = rank(b) /\ a.trk = b.trk /\ a.pit < b.pit))
    IN [j \in DOMAIN all |-> [all[j] EXCEPT !.t = @ - lo]]
WholePiece == cuts = {-1}
EventsOfCall(k) == IF WholePiece THEN PieceEvents(piece) ELSE ChunkEvents(k)
NCalls == IF WholePiece THEN 1 ELSE NChunks

Init == /\ cfg \in Configs
        /\ piece \in PiecesOf(cfg)
        /\ cuts \in {{-1}} \cup SUBSET ((RangeOf(ExpectedBarLines(cfg, piece)) \ {EndOfLastBar(cfg, piece)}) \cup {-2})
        /\ (cuts # {-1} => piece.bars)          \* bar-by-bar calls need a piece made of whole bars
        /\ nc = NCalls
        /\ phase = "idle" /\ ci = 1 /\ ei = 1 /\ evs = <<>> /\ carry = FreshCarry(cfg) /\ acc = [st |-> FreshCarry(cfg), out |-> <<>>, ok |-> TRUE]
        /\ toks = <<>> /\ ti = 1 /\ d = FreshD(cfg) /\ inf = FreshI(cfg)

BeginCall == /\ phase = "idle" /\ ci <= nc
             /\ acc' = [st |-> carry, out |-> <<>>, ok |-> TRUE] /\ ei' = 1 /\ phase' = "tok"
             /\ evs' = EventsOfCall(ci)
             /\ UNCHANGED <<cfg, piece, cuts, nc, ci, carry, toks, ti, d, inf>>
TokEv == /\ phase = "tok" /\ ei <= Len(evs)
         /\ acc' = TokEvent(cfg, acc, evs[ei], carry.clock) /\ ei' = ei + 1
         /\ UNCHANGED <<cfg, piece, cuts, nc, phase, ci, evs, carry, toks, ti, d, inf>>
(* the earlier as-built rule closed the bar only when the clock was strictly inside one; it is kept as a named defect *)
LastInstant(k) == LastInstantOf(evs) + carry.clock
CloseCall(a, k) == IF "NoCloseWhenClockOnBarline" \in Defect THEN CloseBarOnly(cfg, a) ELSE EndCall(cfg, a, LastInstant(k))
EndCallA == /\ phase = "tok" /\ ei > Len(evs)
            /\ LET fin == CloseCall(acc, ci) IN
               /\ carry' = fin.st /\ toks' = toks \o fin.out /\ acc' = fin
            /\ ci' = ci + 1 /\ phase' = "idle"
            /\ UNCHANGED <<cfg, piece, cuts, nc, ei, evs, ti, d, inf>>
StartConsume == /\ phase = "idle" /\ ci > nc
                /\ phase' = "consume" /\ UNCHANGED <<cfg, piece, cuts, nc, ci, ei, evs, carry, acc, toks, ti, d, inf>>
ConsumeTok == /\ phase = "consume" /\ ti <= Len(toks)
              /\ d' = Consume(cfg, d, toks[ti]) /\ inf' = Annotate(cfg, inf, toks[ti]) /\ ti' = ti + 1
              /\ UNCHANGED <<cfg, piece, cuts, nc, phase, ci, ei, evs, carry, acc, toks>>
Finish == /\ phase = "consume" /\ ti > Len(toks) /\ phase' = "done"
          /\ UNCHANGED <<cfg, piece, cuts, nc, ci, ei, evs, carry, acc, toks, ti, d, inf>>
Next == BeginCall \/ TokEv \/ EndCallA \/ StartConsume \/ ConsumeTok \/ Finish

(* ---- properties of the design ---- *)
TokeniseSucceeds == acc.ok                                             \* valid pieces never hit the rest error (C01)
VocabClosed == phase = "idle" => \A j \in DOMAIN toks : toks[j] \in Vocab(cfg)     \* C02 (checked after every call)
LockStep == /\ d.clock = inf.clock /\ d.barPos = inf.barPos /\ d.capRem = inf.capRem /\ d.capTotal = inf.capTotal   \* C19
            /\ \A j \in {ti - 1} \cap DOMAIN toks :                                    \* the token just consumed (inductive)
                   /\ inf.pos[j] = j - 1 /\ Len(inf.pos) = j /\ Len(d.placed) = j
                   /\ toks[j].k = "note" => (inf.time[j] = d.placed[j] /\ inf.pitch[j] = toks[j].pit)
(* for tokenise output: in-bar time = onset - start of its bar, annotated times never decrease *)
BarStartOf(t) == MaxS({0} \cup {b \in RangeOf(Lines) : b <= t})
TokeniseStreamLaws == \A j \in {ti - 1} \cap DOMAIN toks :
                         /\ (toks[j].k = "note" => inf.timeBar[j] = inf.time[j] - BarStartOf(inf.time[j]))
                         /\ (j > 1 => inf.time[j - 1] <= inf.time[j])
RoundTrip == phase = "done" =>                                          \* C01
                 /\ d.notes = ExpectedNotes(cfg, piece)
                 /\ \A j \in DOMAIN d.bars : d.bars[j] = Lines[j]
                 /\ Len(d.bars) \in {Len(Lines), Len(Lines) - 1}
DurationRoundedUp == phase = "done" => d.clock = EndOfLastBar(cfg, piece)
(* C03: the stream of any partition detokenises like the single-call stream *)
SingleCall == TokeniseCall(cfg, FreshCarry(cfg), PieceEvents(piece))
SigInForce(sigs, t) == LET here == SelectSeq(sigs, LAMBDA s : s[1] <= t) IN IF here = <<>> THEN <<4, 4>> ELSE here[Len(here)][2]
ChunkInvariance == (phase = "done" /\ piece.bars) =>
                       LET one == Detok(cfg, SingleCall.out) IN
                       /\ d.notes = one.notes /\ d.bars = one.bars /\ d.clock = one.clock
                       /\ \A b \in ({0} \cup RangeOf(Lines)) \ {EndOfLastBar(cfg, piece)} :
                              SigInForce(d.sigs, b) = SigInForce(one.sigs, b)
=============================================================================
