---- MODULE MC_SeqViews ----
EXTENDS SeqViews
NoDefect == {}
DefectOverwrite == {"OverwriteKeepsStale"}
MC_MaxVersion == 6
====
