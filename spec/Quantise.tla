------------------------------ MODULE Quantise ------------------------------
(***************************************************************************)
(* C05: quantisation of event times to a grid given by a list of step sizes. *)
(* Reference system: the absolute view is walked message by message over     *)
(*   openAt[k]   quantised start of the sounding note of key k = <<ch, p>>   *)
(*               (-1 = none)                                                 *)
(*   lastEnd[k]  quantised end of the previous note of key k (-1 = none)     *)
(*   out         messages written so far                                     *)
(* then Sweep (delete zero-length pairs) and Sort.  Ties between equally     *)
(* near grid positions are left open (nondeterministic), so every            *)
(* tie-breaking rule is a behaviour of the reference system.                 *)
(***************************************************************************)
EXTENDS Inputs

StepSet(steps) == SeqRange(steps)
MaxStep(steps) == MaxOf(StepSet(steps), 1)
OnGrid(t, steps) == \E s \in StepSet(steps) : t % s = 0
(* candidate grid positions around t: for each step the multiple below (or at) t and the next one *)
Cands(t, steps) == UNION {{(t \div s) * s, (t \div s) * s + s} : s \in StepSet(steps)}
NearestIn(t, C) == {c \in C : \A d \in C : AbsVal(c - t) <= AbsVal(d - t)}

(* ---- acceptor ---- *)
(* an injective matching of `outs` into `ins` (sorted sequences of ticks) with displacement <= S exists;
   earliest-feasible greedy is complete for windows of equal width *)
RECURSIVE GreedyMatch(_, _, _)
GreedyMatch(outs, ins, S) ==
    IF outs = <<>> THEN TRUE
    ELSE IF ins = <<>> THEN FALSE
    ELSE IF Head(ins) < Head(outs) - S THEN GreedyMatch(outs, Tail(ins), S)
    ELSE IF Head(ins) > Head(outs) + S THEN FALSE
    ELSE GreedyMatch(Tail(outs), Tail(ins), S)
ClassOf(m) == [Ev(m) EXCEPT !.t = 0]
TicksOfClass(ms, c) == SortSeq(LET sel == SelectSeq(ms, LAMBDA m : ClassOf(m) = c) IN [i \in DOMAIN sel |-> sel[i].t],
                               LAMBDA a, b : a < b)
Classes(ms) == {ClassOf(ms[i]) : i \in DOMAIN ms}
Isolated(x, N, S) == \A y \in N : (y # x /\ y.ch = x.ch /\ y.p = x.p) => (y.e <= x.s - 2 * S \/ y.s >= x.e + 2 * S)
(* dropping x is excusable: for some nearest grid position of its onset no candidate position of its end lies after it *)
MayVanish(x, steps) == \E s2 \in NearestIn(x.s, Cands(x.s, steps)) : \A c \in Cands(x.e, steps) : c <= s2
Survives(x, Nout, S) == \E y \in Nout : y.ch = x.ch /\ y.p = x.p /\ y.v = x.v
                                         /\ AbsVal(y.s - x.s) <= S /\ AbsVal(y.e - x.e) <= S
QuantiseClauses(in, steps, out) ==
    LET S == MaxStep(steps)
        ie == AbsEvents(in)
        oe == AbsEvents(out)
        Nin == Notes(ie)
        Nout == Notes(oe)
    IN << <<"on-grid", \A i \in DOMAIN out : OnGrid(out[i].t, steps)>>,
          <<"moved-at-most-largest-step", \A c \in Classes(out) : GreedyMatch(TicksOfClass(out, c), TicksOfClass(in, c), S)>>,
          <<"pairing", Alternates(oe)>>,
          <<"positive-duration", \A y \in Nout : y.e > y.s>>,
          <<"no-overlap", NoOverlap(Nout)>>,
          <<"sorted", TimeOrdered(out)>>,
          <<"non-note-kept", BagOfSeq([i \in DOMAIN NonNote(ie) |-> ClassOf(NonNote(ie)[i])])
                             = BagOfSeq([i \in DOMAIN NonNote(oe) |-> ClassOf(NonNote(oe)[i])])>>,
          <<"isolated-note-survives", \A x \in Nin : (Isolated(x, Nin, S) /\ ~MayVanish(x, steps)) => Survives(x, Nout, S)>> >>

(* ---- reference transition system ---- *)
CONSTANTS Scores, StepLists, Defect
VARIABLES src, steps, pos, openAt, lastEnd, out, phase
vars == <<src, steps, pos, openAt, lastEnd, out, phase>>
KeysIn(ms) == KeysOf(ms)
QInit == /\ \E sc \in Scores : src = AbsOfNotes(sc.notes, sc.extras, sc.dur)
         /\ steps \in StepLists
         /\ pos = 1 /\ out = <<>> /\ phase = "walk"
         /\ openAt = [k \in KeysIn(src) \cup {<<0, q[2]>> : q \in KeysIn(src)} |-> -1]
         /\ lastEnd = [k \in KeysIn(src) \cup {<<0, q[2]>> : q \in KeysIn(src)} |-> -1]
Cur == src[pos]
K == IF "KeyedByPitchOnly" \in Defect THEN <<0, Cur.p>> ELSE <<Cur.ch, Cur.p>>
Walk == phase = "walk" /\ pos <= Len(src)
Adv == pos' = pos + 1 /\ UNCHANGED <<src, steps, phase>>
QOn == /\ Walk /\ Cur.ty = "on"
       /\ \E t \in NearestIn(Cur.t, Cands(Cur.t, steps)) :
            IF openAt[K] # -1      \* not stopped before: close it here, then judge the new note
            THEN /\ out' = out \o <<MOff(t, Cur.ch, Cur.p), [Cur EXCEPT !.t = t]>>
                 /\ openAt' = [openAt EXCEPT ![K] = t] /\ lastEnd' = [lastEnd EXCEPT ![K] = t]
            ELSE IF lastEnd[K] = -1 \/ t >= lastEnd[K]
                 THEN /\ out' = Append(out, [Cur EXCEPT !.t = t])
                      /\ openAt' = [openAt EXCEPT ![K] = t] /\ UNCHANGED lastEnd
                 ELSE UNCHANGED <<out, openAt, lastEnd>>          \* would overlap the previous note: dropped
       /\ Adv
QOff == /\ Walk /\ Cur.ty = "off"
        /\ IF openAt[K] = -1 THEN UNCHANGED <<out, openAt, lastEnd>>   \* its note-on was dropped
           ELSE LET valid == {c \in Cands(Cur.t, steps) : c > openAt[K]} IN
                \E t \in (IF valid = {} THEN {openAt[K]} ELSE NearestIn(Cur.t, valid)) :
                    /\ out' = Append(out, [Cur EXCEPT !.t = t])
                    /\ lastEnd' = [lastEnd EXCEPT ![K] = t] /\ openAt' = [openAt EXCEPT ![K] = -1]
        /\ Adv
QOther == /\ Walk /\ ~IsNote(Cur)
          /\ \E t \in NearestIn(Cur.t, Cands(Cur.t, steps)) : out' = Append(out, [Cur EXCEPT !.t = t])
          /\ Adv /\ UNCHANGED <<openAt, lastEnd>>
(* delete note-on/note-off pairs that collapsed to zero length (walking the output with an open table) *)
SweepAcc(a, i) ==
    LET m == a.ms[i] k == <<m.ch, m.p>> IN
    IF m.ty = "on" THEN [a EXCEPT !.at = [x \in DOMAIN a.at \cup {k} |-> IF x = k THEN i ELSE a.at[x]]]
    ELSE IF m.ty = "off" /\ k \in DOMAIN a.at /\ a.at[k] # 0
         THEN IF m.t <= a.ms[a.at[k]].t THEN [a EXCEPT !.dead = @ \cup {i, a.at[k]}, !.at[k] = 0]
              ELSE [a EXCEPT !.at[k] = 0]
         ELSE a
Sweep == /\ phase = "walk" /\ pos > Len(src)
         /\ LET a == FoldLeft(SweepAcc, [ms |-> out, at |-> <<>>, dead |-> {}], [i \in DOMAIN out |-> i])
                kept == SelectSeq([i \in DOMAIN out |-> [m |-> out[i], i |-> i]], LAMBDA x : x.i \notin a.dead)
            IN out' = [i \in DOMAIN kept |-> kept[i].m]
         /\ phase' = "sort" /\ UNCHANGED <<src, steps, pos, openAt, lastEnd>>
Sort == /\ phase = "sort"
        /\ out' = SortSeq(out, MsgLess)
        /\ phase' = "done" /\ UNCHANGED <<src, steps, pos, openAt, lastEnd>>
QNext == QOn \/ QOff \/ QOther \/ Sweep \/ Sort

AllHold(cl) == \A j \in DOMAIN cl : cl[j][2]
MeetsAcceptor == phase = "done" => AllHold(QuantiseClauses(src, steps, out))
(* while walking: a key is open exactly if its last written note message is a note-on *)
OpenTableInv == (phase = "walk" /\ Defect = {}) => \A k \in DOMAIN openAt :
    LET mine == SelectSeq(out, LAMBDA m : IsNote(m) /\ <<m.ch, m.p>> = k) IN
    (openAt[k] # -1) = (mine # <<>> /\ mine[Len(mine)].ty = "on")
GridInv == \A i \in DOMAIN out : OnGrid(out[i].t, steps)
=============================================================================
