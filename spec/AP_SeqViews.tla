----------------------------- MODULE AP_SeqViews -----------------------------
(***************************************************************************)
(* Apalache wrapper: inductive check of the SeqViews protocol for ALL        *)
(* version numbers (the TLC run bounds them by MaxVersion).                  *)
(*   apalache-mc check --init=IndInit --inv=IndInv --length=1 AP_SeqViews.tla *)
(* shows IndInv /\ APNext => IndInv' from an arbitrary state satisfying       *)
(* IndInv; the TLC run shows Init => IndInv.  APNext uses the transformer     *)
(* functions of SeqViews directly (one disjunct per discipline and the       *)
(* fine-grained generator steps).  The composite public calls (merge,        *)
(* quantise_and_normalise, scale with re-quantisation, transpose with wrap,   *)
(* whole generator uses) are sequential compositions of these steps, so their *)
(* inductiveness follows; listing them makes Apalache's inliner run out of    *)
(* memory.                                                                    *)
(***************************************************************************)
EXTENDS Integers, Sequences, FiniteSets

VARIABLES
    \* @type: $state;
    s,
    \* @type: Str;
    last

Defect == {}
MaxVersion == 10

INSTANCE SeqViews

IndInit == /\ \E t \in Int, a \in Int, r \in Int, af \in BOOLEAN, rf \in BOOLEAN, it \in {"none", "abs", "rel"} :
                /\ t >= 1 /\ a >= 0 /\ r >= 0
                /\ s = [truth |-> t, absHolds |-> a, relHolds |-> r, absFresh |-> af, relFresh |-> rf, iter |-> it]
           /\ last = "any"
           /\ IndInv

Idle == s.iter = "none"
APNext ==
    \/ Idle /\ s' = F_AbsMut(s, s.truth + 1) /\ last' = "abs_mutator"
    \/ Idle /\ s' = F_RelMut(s, s.truth + 1) /\ last' = "rel_mutator"
    \/ Idle /\ s' = F_ReadAbs(s) /\ last' = "read_abs"
    \/ Idle /\ s' = F_ReadRel(s) /\ last' = "read_rel"
    \/ Idle /\ s' = F_Refresh(s) /\ last' = "refresh"
    \/ Idle /\ s' = F_Copy(s) /\ last' = "copy"
    \/ Idle /\ s' = F_OverwriteAbs(s, s.truth + 1) /\ last' = "overwrite_abs"
    \/ Idle /\ s' = F_OverwriteRel(s, s.truth + 1) /\ last' = "overwrite_rel"
    \/ Idle /\ s.relFresh /\ s' = F_InvalidateAbs(s) /\ last' = "invalidate_abs"
    \/ Idle /\ s.absFresh /\ s' = F_InvalidateRel(s) /\ last' = "invalidate_rel"
    \/ Idle /\ s' = F_IterYield(s, "abs") /\ last' = "yield"
    \/ Idle /\ s' = F_IterYield(s, "rel") /\ last' = "yield"
    \/ ~Idle /\ s' = F_IterYield(s, s.iter) /\ last' = "yield"
    \/ ~Idle /\ s' = F_IterEdit(s, s.truth + 1) /\ last' = "edit"
    \/ ~Idle /\ s' = F_IterReadOther(s) /\ last' = "readother"
    \/ ~Idle /\ s' = F_IterClose(s) /\ last' = "close"
=============================================================================
