---------------------------- MODULE MC_Normalise ----------------------------
EXTENDS Normalise, IOUtils
Thorough == "VERIF_TIER" \in DOMAIN IOEnv /\ IOEnv.VERIF_TIER = "thorough"
(* pitch 1 coincides with a channel number on purpose *)
MC_Alphabet == {MWait(1, 0), MWait(2, 0)}
               \cup {MOn(-1, c, p, 80) : c \in {0, 1}, p \in {1, 60}}
               \cup {MOff(-1, c, p) : c \in {0, 1}, p \in {1, 60}}
               \cup {MTs(-1, 0, 4, 4), MTs(-1, 0, 3, 4)}
NoDefect == {}
D_Orphan == {"KeepOrphanOff"}
D_Unclosed == {"UnclosedKeptUnlessPitchIsChannel"}
MC_MaxLen == IF Thorough THEN 5 ELSE 4
=============================================================================
