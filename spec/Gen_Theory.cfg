CONSTANT Intervals <- MC_Intervals
INIT GenInit
NEXT GenNext
