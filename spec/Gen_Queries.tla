----------------------------- MODULE Gen_Queries -----------------------------
EXTENDS MC_Queries, Json, TLC
GenInit == src = <<>> /\ types = {} /\ pos = 1 /\ clock = 0 /\ chans = {} /\ struck = FALSE /\ hits = <<>> /\ phase = "done"
GenNext == UNCHANGED vars
ASSUME ndJsonSerialize(IOEnv.GEN_FILE, <<[views |-> SetToSeq(MC_Views), typesets |-> SetToSeq({SetToSeq(t) : t \in MC_TypeSets})]>>)
=============================================================================
