------------------------------ MODULE TickTypes ------------------------------
(***************************************************************************)
(* C11: tick values stay integers.  Abstract state: the set of numeric kinds *)
(* ("int", "float", ...) occurring as a time in any view of any live         *)
(* sequence, and in the numeric fields of emitted tokens.  Design rule: every *)
(* public operation with integer arguments is integer-closed, i.e. its       *)
(* output kinds are the join of its input kinds.  The alphabet lists the     *)
(* operations in scope; all of them map a list of sequences to a list of     *)
(* sequences, so every history is well typed.                                *)
(***************************************************************************)
EXTENDS Integers, Sequences, FiniteSets

CONSTANTS MaxLen, Defect
Ops == {"quantise", "quantise_note_lengths", "normalise", "quantise_and_normalise", "pad", "cutoff", "scale", "scale_requantise",
        "transpose", "transpose_wrap", "set_channel", "merge", "concatenate", "split_rejoin", "copy",
        "bar_construct", "bars_roundtrip", "bars_roundtrip_requantise", "composition_roundtrip", "token_roundtrip",
        "save_load", "quantise_helper_grid", "note_lengths_helper_grid", "token_roundtrip_plain",
        "token_roundtrip_plain_ppqn48", "token_roundtrip_unfused_tail", "scale_identity",
        "load_coarse_file", "bars_edit_rejoin"}
(* bars_edit_rejoin: the bars of a piece are edited in place so that they end before their bar line (cutoff with integer
   arguments shortens a note that reaches the bar line) and are then laid end to end again *)
(* token_roundtrip_plain_ppqn48: a tokeniser built with an explicit integer resolution other than the library's and the
   default grids; token_roundtrip_unfused_tail: unfused running values, bar-by-bar calls with a carried state, only the
   tokens of the later calls are detokenised (the stream then starts without value / velocity / track tokens) *)
(* the *_helper_grid operations take their step sizes / note values from the library's own duration helpers
   (get_default_step_sizes, get_note_durations, get_tuplet_durations, get_dotted_note_durations) with integer arguments
   other than the defaults *)
(* operations that build bars pad short sequences to the bar length *)
BarBuilding == {"bars_edit_rejoin", "bar_construct", "bars_roundtrip", "bars_roundtrip_requantise", "composition_roundtrip", "token_roundtrip",
                "token_roundtrip_unfused_tail"}
Tokenising == {"token_roundtrip", "token_roundtrip_plain", "token_roundtrip_plain_ppqn48", "token_roundtrip_unfused_tail"}

VARIABLES kinds, tokenKinds, hist
vars == <<kinds, tokenKinds, hist>>
Init == kinds = {"int"} /\ tokenKinds = {} /\ hist = <<>>
Effect(k, op) == IF op \in BarBuilding /\ "BarPadTrueDivision" \in Defect THEN k \cup {"float"} ELSE k
Do(op) == /\ Len(hist) < MaxLen
          /\ kinds' = Effect(kinds, op)
          /\ tokenKinds' = IF op \in Tokenising THEN tokenKinds \cup Effect(kinds, op) ELSE tokenKinds
          /\ hist' = Append(hist, op)
DoSequenceOp == \E op \in Ops \ (BarBuilding \cup {"save_load", "load_coarse_file"}) : Do(op)
DoBarOp == \E op \in BarBuilding \ Tokenising : Do(op)
DoTokenOp == \E op \in Tokenising : Do(op)
DoFileOp == Do("save_load") \/ Do("load_coarse_file")
Next == DoSequenceOp \/ DoBarOp \/ DoTokenOp \/ DoFileOp
IntOnly == kinds \subseteq {"int"} /\ tokenKinds \subseteq {"int"}
=============================================================================
