------------------------------ MODULE Normalise ------------------------------
(***************************************************************************)
(* C07: normalisation of a relative message list.  Reference system: one    *)
(* action per message over                                                   *)
(*   open[k]   nesting count of key k = <<channel, pitch>>                   *)
(*   firstOn[k] index in `out` of the note-on that opened k (0 = closed)     *)
(*   tsIn, ksIn signature values in force (<<>> = none yet)                  *)
(*   buf       waits not yet written                                         *)
(* then Finish: flush the trailing wait, delete note-ons never closed.       *)
(***************************************************************************)
EXTENDS Music

(* ---- acceptor: the property on (input, output, output normalised again) ---- *)
NoRepeatAcc(a, m) == IF SigVal(m) = a.cur THEN [a EXCEPT !.ok = FALSE] ELSE [a EXCEPT !.cur = SigVal(m)]
NoRepeatedSig(evs, kind) == FoldLeft(NoRepeatAcc, [cur |-> <<>>, ok |-> TRUE], SigsOf(evs, kind)).ok
CanonOf(rel) == [bag |-> EventBag(RelEvents(rel)), dur |-> RelDur(rel)]
NormaliseClauses(in, out, out2) ==
    LET ie == RelEvents(in)
        oe == RelEvents(out)
        d == RelDur(in)
    IN << <<"alternation", Alternates(oe)>>,
          <<"no-repeated-time-signature", NoRepeatedSig(oe, "ts")>>,
          <<"no-repeated-key-signature", NoRepeatedSig(oe, "ks")>>,
          <<"duration-unchanged", RelDur(out) = d>>,
          <<"sound-unchanged-if-paired", Paired(ie) => Sounding(oe, d) = Sounding(ie, d)>>,
          <<"other-events-kept", BagOfSeq(SelectSeq(NonNote(oe), LAMBDA m : m.ty \notin {"ts", "ks"}))
                                   = BagOfSeq(SelectSeq(NonNote(ie), LAMBDA m : m.ty \notin {"ts", "ks"}))>>,
          <<"signatures-in-force-kept", \A t \in SigTicks(ie, "ts") \cup SigTicks(ie, "ks") \cup {d} :
                                             /\ InForce(oe, "ts", t, <<>>) = InForce(ie, "ts", t, <<>>)
                                             /\ InForce(oe, "ks", t, <<>>) = InForce(ie, "ks", t, <<>>)>>,
          <<"idempotent", CanonOf(out2) = CanonOf(out)>> >>

(* ---- reference transition system ---- *)
CONSTANTS Alphabet, MaxLen, Defect   \* Defect: as-built deviations re-created in the model (empty in registered checks)
VARIABLES input, pos, open, firstOn, tsIn, ksIn, buf, out, done
vars == <<input, pos, open, firstOn, tsIn, ksIn, buf, out, done>>
AllKeys == {<<m.ch, m.p>> : m \in {x \in Alphabet : IsNote(x)}}

RECURSIVE SeqsUpTo(_, _)
SeqsUpTo(A, n) == IF n = 0 THEN {<<>>} ELSE LET S == SeqsUpTo(A, n - 1) IN S \cup {Append(s, a) : s \in S, a \in A}

NInit == /\ input \in SeqsUpTo(Alphabet, MaxLen)
         /\ pos = 1 /\ open = [k \in AllKeys |-> 0] /\ firstOn = [k \in AllKeys |-> 0]
         /\ tsIn = <<>> /\ ksIn = <<>> /\ buf = 0 /\ out = <<>> /\ done = FALSE
Cur == input[pos]
KeyOf(m) == <<m.ch, m.p>>
Flush(m) == IF buf > 0 THEN <<MWait(buf, m.ch), m>> ELSE <<m>>
Step == pos' = pos + 1 /\ UNCHANGED <<input, done>>
Write(m) == out' = out \o Flush(m) /\ buf' = 0

NWait == /\ ~done /\ pos <= Len(input) /\ Cur.ty = "wait"
         /\ buf' = buf + Cur.t /\ Step /\ UNCHANGED <<open, firstOn, tsIn, ksIn, out>>
(* a note-on is written only when the key is closed *)
NOn == /\ ~done /\ pos <= Len(input) /\ Cur.ty = "on"
       /\ open' = [open EXCEPT ![KeyOf(Cur)] = @ + 1]
       /\ IF open[KeyOf(Cur)] = 0
          THEN Write(Cur) /\ firstOn' = [firstOn EXCEPT ![KeyOf(Cur)] = Len(out) + (IF buf > 0 THEN 2 ELSE 1)]
          ELSE UNCHANGED <<out, buf, firstOn>>
       /\ Step /\ UNCHANGED <<tsIn, ksIn>>
(* a note-off is written only when it closes the outermost note-on; an orphan is dropped *)
NOff == /\ ~done /\ pos <= Len(input) /\ Cur.ty = "off"
        /\ open' = [open EXCEPT ![KeyOf(Cur)] = IF @ > 0 THEN @ - 1 ELSE 0]
        /\ IF open[KeyOf(Cur)] = 1 \/ (open[KeyOf(Cur)] = 0 /\ "KeepOrphanOff" \in Defect)
           THEN Write(Cur) /\ firstOn' = [firstOn EXCEPT ![KeyOf(Cur)] = 0]
           ELSE UNCHANGED <<out, buf, firstOn>>
        /\ Step /\ UNCHANGED <<tsIn, ksIn>>
NTs == /\ ~done /\ pos <= Len(input) /\ Cur.ty = "ts"
       /\ IF SigVal(Cur) # tsIn THEN Write(Cur) /\ tsIn' = SigVal(Cur) ELSE UNCHANGED <<out, buf, tsIn>>
       /\ Step /\ UNCHANGED <<open, firstOn, ksIn>>
NKs == /\ ~done /\ pos <= Len(input) /\ Cur.ty = "ks"
       /\ IF SigVal(Cur) # ksIn THEN Write(Cur) /\ ksIn' = SigVal(Cur) ELSE UNCHANGED <<out, buf, ksIn>>
       /\ Step /\ UNCHANGED <<open, firstOn, tsIn>>
NOther == /\ ~done /\ pos <= Len(input) /\ Cur.ty \notin {"wait", "on", "off", "ts", "ks"}
          /\ Write(Cur) /\ Step /\ UNCHANGED <<open, firstOn, tsIn, ksIn>>
(* end of input: trailing wait, then delete the note-ons that were never closed *)
Finish == /\ ~done /\ pos > Len(input)
          /\ LET flushed == IF buf > 0 THEN Append(out, MWait(buf, 0)) ELSE out
                 dead == IF "UnclosedKeptUnlessPitchIsChannel" \in Defect
                         THEN {firstOn[k] : k \in {x \in AllKeys : open[x] > 0 /\ x[2] \in {0, 1}}}
                         ELSE {firstOn[k] : k \in {x \in AllKeys : open[x] > 0}}
             IN out' = SelectSeq([i \in DOMAIN flushed |-> [m |-> flushed[i], i |-> i]],
                                 LAMBDA x : x.i \notin dead)
          /\ done' = TRUE /\ buf' = 0
          /\ UNCHANGED <<input, pos, open, firstOn, tsIn, ksIn>>
NNext == NWait \/ NOn \/ NOff \/ NTs \/ NKs \/ NOther \/ Finish

Result == [i \in DOMAIN out |-> out[i].m]
Consumed == SubSeq(input, 1, pos - 1)
(* intermediate invariants only the state-machine view exposes *)
ClockInv == ~done => RelDur(out) + buf = RelDur(Consumed)
OpenTableInv == ~done => \A k \in AllKeys :
                  /\ (open[k] > 0) = (firstOn[k] > 0)
                  /\ firstOn[k] > 0 => (out[firstOn[k]].ty = "on" /\ KeyOf(out[firstOn[k]]) = k)
AllHold(cl) == \A j \in DOMAIN cl : cl[j][2]
(* at termination the design meets the acceptor; normalising its own output changes nothing (checked by re-running
   the acceptor's idempotence clause on the model output through a second pass is done in MC via Second) *)
MeetsAcceptor == done => AllHold(SubSeq(NormaliseClauses(input, Result, Result), 1, 7))
=============================================================================
