---- MODULE MC_TickTypes ----
EXTENDS TickTypes, IOUtils
Thorough == "VERIF_TIER" \in DOMAIN IOEnv /\ IOEnv.VERIF_TIER = "thorough"
NoDefect == {}
D_Pad == {"BarPadTrueDivision"}
MC_MaxLen == IF Thorough THEN 3 ELSE 2
====
