---- MODULE MC_BarCtor ----
EXTENDS BarCtor
MC_Sigs == {<<4, 4>>, <<3, 4>>, <<6, 8>>, <<2, 2>>, <<7, 8>>, <<3, 8>>}
MC_Durations == {0, 35, 36, 37, 71, 72, 73, 84, 95, 96, 97, 192, 2304}
NoDefect == {}
AsBuilt == {"CountAfterNormalise"}
====
