--------------------------- MODULE Trace_Pipeline ---------------------------
EXTENDS Pipeline, TraceBase
T_Empty == {}
Norm(r) == [r EXCEPT !.values = SetOfSeq(r.values), !.sigs = [i \in DOMAIN r.sigs |-> [j \in DOMAIN r.sigs[i] |-> <<r.sigs[i][j][1], r.sigs[i][j][2]>>]]]
Verdict(r) == IF r.raised # "" THEN <<"raised">> ELSE Fails(PipelineClauses(Norm(r)))
TraceInit == TraceStart /\ piece = <<>> /\ k = 1 /\ done = <<>> /\ rest = <<>> /\ joined = <<>> /\ file = <<>> /\ loaded = <<>> /\ stage = "loaded"
TraceNext == HasLine /\ Advance /\ UNCHANGED vars
             /\ Emit([id |-> Line.id, fails |-> Verdict(Line)])
=============================================================================
