--------------------------- MODULE Trace_SimpleOps ---------------------------
(* Validates histories of pad / cutoff / scale / set_channel replayed on real Sequence objects. *)
EXTENDS SimpleOps, TraceBase

T_Init == {} 
T_Ops == {}
T_Max == 1000000

Prefixed(pfx, cl) == [i \in DOMAIN cl |-> <<pfx \o cl[i][1], cl[i][2]>>]

TraceStep ==
    LET r == Line
        preR == ScoreOfRel(r.pre.rel)
        preA == ScoreOfAbs(r.pre.abs)
        postR == ScoreOfRel(r.post.rel)
        postA == ScoreOfAbs(r.post.abs)
        inDomain == WellFormed(preR.evs) /\ NoOverlap(preR.notes)
        s0 == IF r.first THEN Abstract(preR) ELSE score
        s1 == ApplyOp(s0, r.op)
        repr == /\ ScoreWellFormed(s1) /\ Cardinality(s1.notes) = Cardinality(s0.notes)
                /\ (r.op.op = "set_channel" => Alternates(postR.evs))   \* fused channels: judged on the bag only
        sameAsRef == IF r.op.op = "cutoff"
                     THEN postR.notes = s1.notes /\ postR.extras = s1.extras
                     ELSE Abstract(postR) = s1
        clauses == IF ~r.post.readable THEN << <<"readable", FALSE>> >>
                   ELSE IF ~inDomain THEN <<>>
                   ELSE Prefixed("rel:", OpClauses(preR, r.op, postR))
                        \o Prefixed("abs:", OpClauses(preA, r.op, postA))
                        \o << <<"views-agree", postR.bag = postA.bag /\ postR.dur = postA.dur>>,
                              <<"matches-reference", repr => sameAsRef>> >>
    IN /\ score' = s1
       /\ prev' = s0
       /\ lastOp' = r.op
       /\ steps' = IF r.first THEN 1 ELSE steps + 1
       /\ Emit([id |-> r.id, fails |-> Fails(clauses), judged |-> inDomain])

TraceInit == TraceStart /\ score = [notes |-> {}, extras |-> {}, dur |-> 0] /\ prev = score /\ steps = 0
             /\ lastOp = [op |-> "none", a |-> 0, b |-> 0]
TraceNext == HasLine /\ Advance /\ TraceStep
=============================================================================
