------------------------------ MODULE SeqViews ------------------------------
(***************************************************************************)
(* C04.  A Sequence is a two-copy coherence protocol: an absolute and a     *)
(* relative representation of the same content, each with a staleness bit.  *)
(* Content is abstracted to a value `truth` (a version number in the model  *)
(* check, the observed content in trace validation).                        *)
(*                                                                          *)
(* State of the object under observation (record `s`):                      *)
(*   truth      the content the sequence is supposed to have                *)
(*   absHolds / relHolds   the content stored in each slot (0 = nothing)    *)
(*   absFresh / relFresh   negated staleness bits                           *)
(*   iter       "none" | "abs" | "rel": a messages_abs()/messages_rel()     *)
(*              generator is suspended at a yield                           *)
(* Every public operation is a state transformer F(s, ...) with an enabling *)
(* condition; the actions of the transition system, the generator of legal  *)
(* histories and the trace validator all use the same transformers.         *)
(***************************************************************************)
EXTENDS Integers, Sequences, FiniteSets

CONSTANT Defect        \* set of as-built deviations re-created in the model (empty in every registered check)

Nothing == 0
(* type annotations (comments to TLC) are for the Apalache inductive check in AP_SeqViews.tla, where content is an Int *)
\* @typeAlias: state = { truth: Int, absHolds: Int, relHolds: Int, absFresh: Bool, relFresh: Bool, iter: Str };
SeqViewsTypeAliases == TRUE

(* ---- accessors: reading a view regenerates it from the other when stale ---- *)
\* @type: ($state) => Bool;
CanRead(s) == s.absFresh \/ s.relFresh
\* @type: ($state) => $state;
EnsureAbs(s) == IF s.absFresh THEN s ELSE [s EXCEPT !.absHolds = s.relHolds, !.absFresh = TRUE]
\* @type: ($state) => $state;
EnsureRel(s) == IF s.relFresh THEN s ELSE [s EXCEPT !.relHolds = s.absHolds, !.relFresh = TRUE]

(* ---- mutators ---- *)
(* add_absolute_message, cutoff, quantise, quantise_note_lengths: act on the absolute view *)
\* @type: ($state, Int) => $state;
F_AbsMut(s, c) == LET t == EnsureAbs(s) IN [t EXCEPT !.truth = c, !.absHolds = c, !.relFresh = FALSE]
(* add_relative_message, concatenate, normalise, pad, set_channel, scale, transpose: act on the relative view *)
\* @type: ($state, Int) => $state;
F_RelMut(s, c) == LET t == EnsureRel(s) IN [t EXCEPT !.truth = c, !.relHolds = c, !.absFresh = FALSE]
(* overwrite_*_messages: install new content in one slot, make THAT slot the fresh one, invalidate the other *)
\* @type: ($state, Int) => $state;
F_OverwriteAbs(s, c) ==
    [s EXCEPT !.truth = c, !.absHolds = c, !.relFresh = FALSE,
              !.absFresh = IF "OverwriteKeepsStale" \in Defect THEN s.absFresh ELSE TRUE]
\* @type: ($state, Int) => $state;
F_OverwriteRel(s, c) ==
    [s EXCEPT !.truth = c, !.relHolds = c, !.absFresh = FALSE,
              !.relFresh = IF "OverwriteKeepsStale" \in Defect THEN s.relFresh ELSE TRUE]

(* ---- reads ---- *)
\* @type: ($state) => $state;
F_ReadAbs(s) == EnsureAbs(s)
\* @type: ($state) => $state;
F_ReadRel(s) == EnsureRel(s)
\* @type: ($state) => $state;
F_Refresh(s) == EnsureRel(EnsureAbs(s))
(* copy(): copies exactly the fresh slots *)
\* @type: ($state) => $state;
F_Copy(s) == [s EXCEPT !.absHolds = IF s.absFresh THEN s.absHolds ELSE Nothing,
                       !.relHolds = IF s.relFresh THEN s.relHolds ELSE Nothing]
(* invalidate_abs / invalidate_rel: documented for use after a direct edit of the OTHER view *)
\* @type: ($state) => $state;
F_InvalidateAbs(s) == [s EXCEPT !.absFresh = FALSE]
\* @type: ($state) => $state;
F_InvalidateRel(s) == [s EXCEPT !.relFresh = FALSE]

(* ---- generators messages_abs() / messages_rel() ---- *)
(* start: read the view; each yield (and the close) invalidates the other view *)
\* @type: ($state, Str) => $state;
F_IterYield(s, v) == IF v = "abs" THEN [EnsureAbs(s) EXCEPT !.relFresh = FALSE, !.iter = "abs"]
                     ELSE [EnsureRel(s) EXCEPT !.absFresh = FALSE, !.iter = "rel"]
(* an in-turn edit of the yielded message changes the content of the iterated view *)
(* intended design: the other view cannot be trusted after the edit.  As built ("EditKeepsOtherFresh") the other
   view stays marked fresh until the next yield, so a read of it in the same turn returns the old content. *)
\* @type: ($state, Int) => $state;
F_IterEdit(s, c) ==
    LET keep == "EditKeepsOtherFresh" \in Defect IN
    IF s.iter = "abs" THEN [s EXCEPT !.truth = c, !.absHolds = c, !.relFresh = IF keep THEN @ ELSE FALSE]
    ELSE [s EXCEPT !.truth = c, !.relHolds = c, !.absFresh = IF keep THEN @ ELSE FALSE]
(* reading the other view while suspended is legal: it is regenerated, the next yield invalidates it again *)
\* @type: ($state) => $state;
F_IterReadOther(s) == IF s.iter = "abs" THEN EnsureRel(s) ELSE EnsureAbs(s)
\* @type: ($state) => $state;
F_IterClose(s) == IF s.iter = "abs" THEN [s EXCEPT !.relFresh = FALSE, !.iter = "none"]
                  ELSE [s EXCEPT !.absFresh = FALSE, !.iter = "none"]

(* ---- the alphabet of abstract operations ---- *)
(* add_absolute_cap: add_absolute_message of an INTERNAL message beyond the end (it lengthens the sequence; the relative
   view shows it as a trailing wait) *)
AbsMutOps == {"add_absolute_message", "add_absolute_cap", "cutoff", "quantise", "quantise_note_lengths"}
RelMutOps == {"add_relative_message", "concatenate", "normalise", "pad", "set_channel", "scale", "transpose"}
(* composites: several steps of the protocol in one public call *)
(* late_iter_*: a generator obtained before, and advanced after, a mutator of the OTHER view (its body only runs on the
   first `next`, so this is the mutator followed by a whole iteration); scale_down_self_meta: scale by 1/2 with the
   sequence itself as the source of the time signatures *)
CompositeOps == {"merge", "quantise_and_normalise", "scale_requantise", "transpose_wrap", "late_iter_abs", "late_iter_rel",
                 "scale_down_self_meta"}
AbsReadOps == {"read_abs", "equals", "get_message_pairings", "get_interleaved_message_pairings",
               "get_message_times_of_type", "get_sequence_channel", "get_sequence_duration",
               "is_channel_consistent"}
(* split_edit_parts: split, then in-place operations on the returned parts (the parts are values of their own: the
   object itself only had its relative view read) *)
RelReadOps == {"read_rel", "get_sequence_duration_relation", "is_empty", "to_midi_track", "split", "split_edit_parts"}
IterOps == {"iter_abs", "iter_abs_edit", "iter_abs_break", "iter_abs_readother", "iter_abs_edit_readother",
            "iter_rel", "iter_rel_edit", "iter_rel_break", "iter_rel_readother", "iter_rel_edit_readother"}
OtherOps == {"overwrite_absolute_messages", "overwrite_relative_messages", "refresh", "copy",
             "invalidate_abs", "invalidate_rel"}
AllOps == AbsMutOps \cup RelMutOps \cup CompositeOps \cup AbsReadOps \cup RelReadOps \cup IterOps \cup OtherOps
Mutating == AbsMutOps \cup RelMutOps \cup CompositeOps
            \cup {"overwrite_absolute_messages", "overwrite_relative_messages",
                  "iter_abs_edit", "iter_rel_edit", "iter_abs_edit_readother", "iter_rel_edit_readother"}

(* legal: every public call on a readable object outside an iteration, except that an explicit
   invalidate_x is documented only for when the other view is current *)
\* @type: ($state, Str) => Bool;
Enabled(s, op) == /\ s.iter = "none"
                  /\ (op = "invalidate_abs" => s.relFresh)
                  /\ (op = "invalidate_rel" => s.absFresh)

IterView(op) == IF op \in {"iter_abs", "iter_abs_edit", "iter_abs_break", "iter_abs_readother",
                           "iter_abs_edit_readother"} THEN "abs" ELSE "rel"
(* fine-grained generator steps as operations of their own (the trace logs these) *)
FineOps == {"iter_start_abs", "iter_start_rel", "iter_yield", "iter_edit", "iter_readother", "iter_close"}
\* @type: ($state, Str, Int) => $state;
ApplyFine(s, f, c) ==
    CASE f = "iter_start_abs" -> F_IterYield(s, "abs")
      [] f = "iter_start_rel" -> F_IterYield(s, "rel")
      [] f = "iter_yield" -> F_IterYield(s, s.iter)
      [] f = "iter_edit" -> F_IterEdit(s, c)
      [] f = "iter_readother" -> F_IterReadOther(s)
      [] f = "iter_close" -> F_IterClose(s)
(* a whole generator use = a script of fine steps: two yields (or one and a break), with optional in-turn edit
   and optional read of the other view *)
\* @type: (Str) => Seq(Str);
IterScript(op) ==
    LET v == IterView(op)
        start == IF v = "abs" THEN "iter_start_abs" ELSE "iter_start_rel"
        edits == op \in {"iter_abs_edit", "iter_rel_edit", "iter_abs_edit_readother", "iter_rel_edit_readother"}
        reads == op \in {"iter_abs_readother", "iter_rel_readother", "iter_abs_edit_readother",
                         "iter_rel_edit_readother"}
        brk == op \in {"iter_abs_break", "iter_rel_break"}
    IN <<start>> \o (IF edits THEN <<"iter_edit">> ELSE <<>>) \o (IF reads THEN <<"iter_readother">> ELSE <<>>)
       \o (IF brk THEN <<>> ELSE <<"iter_yield">>) \o <<"iter_close">>
(* scripts have at most six steps; unrolled so that the module has no recursive operator (Apalache) *)
\* @type: ($state, Seq(Str), Int) => $state;
RunScript(s, script, c) ==
    LET \* @type: ($state, Int) => $state;
        step(st, i) == IF i <= Len(script) THEN ApplyFine(st, script[i], c) ELSE st
    IN step(step(step(step(step(step(s, 1), 2), 3), 4), 5), 6)
\* @type: ($state, Str, Int) => $state;
F_Iter(s, op, c) == RunScript(s, IterScript(op), c)

(* c = the content after the operation (= s.truth for non-mutating operations) *)
\* @type: ($state, Str, Int) => $state;
Apply(s, op, c) ==
    CASE op \in AbsMutOps -> F_AbsMut(s, c)
      [] op \in RelMutOps -> F_RelMut(s, c)
      [] op = "merge" -> F_RelMut(F_AbsMut(s, c), c)                          \* merge into abs; normalise
      [] op = "quantise_and_normalise" -> F_RelMut(F_AbsMut(F_AbsMut(s, c), c), c)
      [] op = "late_iter_abs" -> F_Iter(F_RelMut(s, c), "iter_abs", c)
      [] op = "late_iter_rel" -> F_Iter(F_AbsMut(s, c), "iter_rel", c)
      [] op = "scale_down_self_meta" -> F_RelMut(F_ReadAbs(F_RelMut(s, c)), c)
      [] op = "scale_requantise" -> F_RelMut(F_AbsMut(F_AbsMut(F_RelMut(s, c), c), c), c)
      [] op = "transpose_wrap" -> F_AbsMut(F_RelMut(F_RelMut(s, c), c), c)    \* transpose; normalise; note lengths
      [] op \in AbsReadOps -> F_ReadAbs(s)
      [] op \in RelReadOps -> F_ReadRel(s)
      [] op \in IterOps -> F_Iter(s, op, c)
      [] op = "overwrite_absolute_messages" -> F_OverwriteAbs(s, c)
      [] op = "overwrite_relative_messages" -> F_OverwriteRel(s, c)
      [] op = "refresh" -> F_Refresh(s)
      [] op = "copy" -> F_Copy(s)
      [] op = "invalidate_abs" -> F_InvalidateAbs(s)
      [] op = "invalidate_rel" -> F_InvalidateRel(s)

(* ---- the properties, as predicates on a state ---- *)
\* @type: ($state) => Bool;
Coherent(s) == /\ s.absFresh => s.absHolds = s.truth
               /\ s.relFresh => s.relHolds = s.truth
\* @type: ($state) => Bool;
Readable(s) == CanRead(s)
(* what a read of either view returns *)
\* @type: ($state) => Int;
ViewAbs(s) == EnsureAbs(s).absHolds
\* @type: ($state) => Int;
ViewRel(s) == EnsureRel(s).relHolds
\* @type: ($state) => Bool;
Visible(s) == Readable(s) => (ViewAbs(s) = s.truth /\ ViewRel(s) = s.truth)

---------------------------------------------------------------------------
(* Transition system.  Versions are fresh numbers; MaxVersion bounds the exploration. *)
CONSTANTS MaxVersion
VARIABLES s, last
vars == <<s, last>>

StartStates == {[truth |-> 1, absHolds |-> 1, relHolds |-> Nothing, absFresh |-> TRUE, relFresh |-> FALSE, iter |-> "none"],
                [truth |-> 1, absHolds |-> Nothing, relHolds |-> 1, absFresh |-> FALSE, relFresh |-> TRUE, iter |-> "none"],
                [truth |-> 1, absHolds |-> 1, relHolds |-> 1, absFresh |-> TRUE, relFresh |-> TRUE, iter |-> "none"]}
Init == s \in StartStates /\ last = "init"

NewContent(op) == IF op \in Mutating THEN s.truth + 1 ELSE s.truth
Do(op) == /\ Enabled(s, op)
          /\ s.truth < MaxVersion
          /\ s' = Apply(s, op, NewContent(op))
          /\ last' = op
(* one named action per discipline, so that coverage shows each was exercised *)
DoAbsMutator == \E op \in AbsMutOps : Do(op)
DoRelMutator == \E op \in RelMutOps : Do(op)
DoComposite == \E op \in CompositeOps : Do(op)
DoRead == \E op \in AbsReadOps \cup RelReadOps \cup {"refresh"} : Do(op)
DoOverwrite == \E op \in {"overwrite_absolute_messages", "overwrite_relative_messages"} : Do(op)
DoIterate == \E op \in IterOps : Do(op)
DoCopy == Do("copy")
DoInvalidate == Do("invalidate_abs") \/ Do("invalidate_rel")
(* fine-grained generator steps, explored separately from the composite form *)
IterStart == \E v \in {"abs", "rel"} : s.iter = "none" /\ s.truth < MaxVersion /\ s' = F_IterYield(s, v) /\ last' = "yield"
IterYieldAgain == s.iter # "none" /\ s' = F_IterYield(s, s.iter) /\ last' = "yield"
IterEdit == s.iter # "none" /\ s.truth < MaxVersion /\ s' = F_IterEdit(s, s.truth + 1) /\ last' = "edit"
IterReadOther == s.iter # "none" /\ s' = F_IterReadOther(s) /\ last' = "readother"
IterClose == s.iter # "none" /\ s' = F_IterClose(s) /\ last' = "close"

Next == \/ DoAbsMutator \/ DoRelMutator \/ DoComposite \/ DoRead \/ DoOverwrite \/ DoIterate \/ DoCopy
        \/ DoInvalidate \/ IterStart \/ IterYieldAgain \/ IterEdit \/ IterReadOther \/ IterClose

InvCoherent == Coherent(s)
InvReadable == Readable(s)
InvVisible == Visible(s)
(* while a generator is suspended the iterated view is the fresh one *)
InvIter == (s.iter = "abs" => s.absFresh) /\ (s.iter = "rel" => s.relFresh)
TypeOK == /\ s.truth \in 1 .. MaxVersion /\ s.absHolds \in 0 .. MaxVersion /\ s.relHolds \in 0 .. MaxVersion
          /\ s.absFresh \in BOOLEAN /\ s.relFresh \in BOOLEAN /\ s.iter \in {"none", "abs", "rel"}
(* inductive form (does not mention the bound): checked by Apalache in the thorough tier *)
IndInv == Coherent(s) /\ Readable(s) /\ InvIter
(* the view a reader sees never goes back to older content *)
NoStaleRead == [][Readable(s') => ViewAbs(s') = s'.truth]_vars
=============================================================================
