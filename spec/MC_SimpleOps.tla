---------------------------- MODULE MC_SimpleOps ----------------------------
EXTENDS SimpleOps, IOUtils
Thorough == "VERIF_TIER" \in DOMAIN IOEnv /\ IOEnv.VERIF_TIER = "thorough"
Cands == NoteCands({0, 1}, {60}, {0, 2, 5}, {1, 3, 7}, {80}) \cup NoteCands({0}, {61}, {0, 2, 5}, {1, 3, 7}, {40})
ExtraSets == {{}, {MTs(0, 0, 3, 4)}, {MTs(0, 0, 4, 4), Msg("cc", 3, 0, 64, 100, -1, -1, "")}}
MC_InitScores ==
    LET NS == NoteSets(Cands, IF Thorough THEN 3 ELSE 2) IN
    {[notes |-> N, extras |-> X, dur |-> d] :
        N \in NS, X \in ExtraSets, d \in {0, 4, 16}} 
MC_Scores == {sc \in {[s EXCEPT !.dur = Max2(s.dur, LastEvent(s))] : s \in MC_InitScores} : TRUE}
MC_Ops == {[op |-> "pad", a |-> n, b |-> 0] : n \in {0, 5, 12, 16, 30}}
          \cup {[op |-> "cutoff", a |-> m, b |-> r] : m \in {2, 3, 6}, r \in {1, 2}}
          \cup {[op |-> "scale", a |-> k, b |-> 0] : k \in 1 .. 8}
          \cup {[op |-> "set_channel", a |-> c, b |-> 0] : c \in {0, 1, 5}}
MC_MaxSteps == 2
=============================================================================
