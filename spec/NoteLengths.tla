----------------------------- MODULE NoteLengths -----------------------------
(***************************************************************************)
(* C06: quantisation of note lengths (only note ends move).                 *)
(* Reference system: notes are visited one by one; a note gets an allowed    *)
(* duration closest to its own among those that fit before the next note of  *)
(* its channel and pitch (and, with extension disabled, are not longer), or  *)
(* is removed when none fits.  Ties are left open.                           *)
(***************************************************************************)
EXTENDS Inputs

NextOnset(x, N) == MinOf({y.s : y \in {z \in N : z.ch = x.ch /\ z.p = x.p /\ z.s > x.s}}, -1)
Fitting(x, N, values, noExtend) ==
    {v \in SeqRange(values) : /\ (NextOnset(x, N) = -1 \/ x.s + v <= NextOnset(x, N))
                              /\ (noExtend => v <= x.e - x.s)}
Best(x, F) == {v \in F : \A w \in F : AbsVal(v - (x.e - x.s)) <= AbsVal(w - (x.e - x.s))}
Same(x, y) == x.ch = y.ch /\ x.p = y.p /\ x.s = y.s

NoteLengthClauses(in, values, noExtend, out) ==
    LET ie == AbsEvents(in)
        oe == AbsEvents(out)
        Nin == Notes(ie)
        Nout == Notes(oe)
    IN << <<"pairing", Alternates(oe)>>,
          <<"allowed-duration", \A y \in Nout : (y.e - y.s) \in SeqRange(values)>>,
          <<"onset-pitch-channel-velocity-unchanged", \A y \in Nout : \E x \in Nin : Same(x, y) /\ x.v = y.v>>,
          <<"no-overlap", NoOverlap(Nout)>>,
          <<"non-note-untouched", NonNoteBag(oe) = NonNoteBag(ie)>>,
          <<"never-longer-without-extension", noExtend => \A y \in Nout : \A x \in Nin : Same(x, y) => y.e - y.s <= x.e - x.s>>,
          <<"fits-before-next", \A y \in Nout : \A x \in Nin : Same(x, y) => (y.e - y.s) \in Fitting(x, Nin, values, noExtend)>>,
          <<"closest-fit", \A y \in Nout : \A x \in Nin : Same(x, y) => (y.e - y.s) \in Best(x, Fitting(x, Nin, values, noExtend))>>,
          <<"removed-only-if-nothing-fits", \A x \in Nin : (~\E y \in Nout : Same(x, y)) => Fitting(x, Nin, values, noExtend) = {}>>,
          <<"sorted", TimeOrdered(out)>> >>

(* ---- reference transition system ---- *)
CONSTANTS Scores, ValueLists
VARIABLES score, values, noExtend, todo, kept
vars == <<score, values, noExtend, todo, kept>>
LInit == /\ score \in Scores /\ values \in ValueLists /\ noExtend \in BOOLEAN
         /\ todo = score.notes /\ kept = {}
Requantise == \E x \in todo :
                 LET F == Fitting(x, score.notes, values, noExtend) IN
                 /\ F # {} /\ \E v \in Best(x, F) : kept' = kept \cup {[x EXCEPT !.e = x.s + v]}
                 /\ todo' = todo \ {x} /\ UNCHANGED <<score, values, noExtend>>
DropNote == \E x \in todo :
             /\ Fitting(x, score.notes, values, noExtend) = {}
             /\ todo' = todo \ {x} /\ UNCHANGED <<score, values, noExtend, kept>>
LNext == Requantise \/ DropNote
Done == todo = {}
AllHold(cl) == \A j \in DOMAIN cl : cl[j][2]
MeetsAcceptor == Done => AllHold(NoteLengthClauses(AbsOfNotes(score.notes, score.extras, score.dur), values, noExtend,
                                                   AbsOfNotes(kept, score.extras, 0)))
(* kept notes never collide with notes still to be visited *)
NoCollision == \A y \in kept : \A x \in todo : (x.ch = y.ch /\ x.p = y.p /\ x.s > y.s) => y.e <= x.s
=============================================================================
