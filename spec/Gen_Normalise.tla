---------------------------- MODULE Gen_Normalise ----------------------------
(* The initial states of the reference system are all lists over Alphabet up to MaxLen; alphabet and bound are written. *)
EXTENDS MC_Normalise, Json, TLC
GenInit == /\ input = <<>> /\ pos = 1 /\ open = <<>> /\ firstOn = <<>> /\ tsIn = <<>> /\ ksIn = <<>>
           /\ buf = 0 /\ out = <<>> /\ done = FALSE
GenNext == UNCHANGED vars
ASSUME ndJsonSerialize(IOEnv.GEN_FILE, <<[alphabet |-> SetToSeq(MC_Alphabet), maxlen |-> MC_MaxLen]>>)
=============================================================================
