---------------------------- MODULE Gen_SimpleOps ----------------------------
(* Every operation is always enabled in the reference system, so its behaviours are exactly
   InitScores x Ops^k; the two factors are written out and the harness forms the product. *)
EXTENDS MC_SimpleOps, Json, TLC
GenInit == score = [notes |-> {}, extras |-> {}, dur |-> 0] /\ prev = score /\ steps = 0
             /\ lastOp = [op |-> "none", a |-> 0, b |-> 0]
GenNext == UNCHANGED vars
ASSUME ndJsonSerialize(IOEnv.GEN_FILE, <<[scores |-> SetToSeq(MC_Scores), ops |-> SetToSeq(MC_Ops)]>>)
=============================================================================
