--------------------------- MODULE Trace_Tokeniser ---------------------------
(***************************************************************************)
(* Validates observations of the real tokeniser.  Line kinds:                *)
(*   "roundtrip"  C01  piece -> tokenise -> encode -> decode -> detokenise   *)
(*   "vocab"      C02  the complete dictionary of one configuration          *)
(*   "witness"    C02  a piece built to force one vocabulary token           *)
(*   "chunk"      C03  bar-by-bar calls vs one call                          *)
(*   "info"       C19  annotations vs detokenised placements                 *)
(***************************************************************************)
EXTENDS TokeniserSys, TheoryDefs, TraceBase

T_Empty == {}
T_Pieces(c) == {}
T_NoDefect == {}

CfgOf(c) == [ppqn |-> c.ppqn, tracks |-> c.tracks, pitLo |-> c.pitLo, pitHi |-> c.pitHi, steps |-> RangeOf(c.steps),
             values |-> RangeOf(c.values), bins |-> c.bins, tsLo |-> c.tsLo, tsHi |-> c.tsHi,
             running |-> c.running, fuseTrk |-> c.fuseTrk, fuseVal |-> c.fuseVal, fuseVel |-> c.fuseVel]
PieceOf(p) == [tracks |-> [i \in DOMAIN p.tracks |-> RangeOf(p.tracks[i])], sigs |-> p.sigs, end |-> p.end, cap |-> p.cap, bars |-> p.bars]
(* at most the configured number of bins (bins capped at the same value collapse), ascending, ending at the maximum *)
BinsOk(c) == /\ Len(c.bins) >= 1 /\ Len(c.bins) <= c.nbins /\ c.bins[Len(c.bins)] = 127
             /\ \A i \in 1 .. (Len(c.bins) - 1) : c.bins[i] < c.bins[i + 1]
             /\ \A i \in DOMAIN c.bins : c.bins[i] >= 1
(* output tracks are lists of notes [p, s, e, v]; marks = ticks of the bar marks; sigs = <<tick, n, d>> on track 1 *)
OutNotes(o) == UNION {{[trk |-> i - 1, p |-> x.p, s |-> x.s, e |-> x.e, v |-> x.v] : x \in RangeOf(o.tracks[i])} : i \in DOMAIN o.tracks}
LastNoteEnd(o, i) == MaxS({0} \cup {x.e : x \in RangeOf(o.tracks[i])})

RoundTripClauses(r) ==
    LET c == CfgOf(r.cfg)
        pc == PieceOf(r.piece)
        ok == r.tokRaised = "" /\ r.detokRaised = ""
        lines == ExpectedBarLines(c, pc)
        outLines == BarLines(c, r.out.sigs, 0, pc.end, <<>>)
        lastBar == EndOfLastBar(c, pc)
    IN << <<"tokenise-succeeds", r.tokRaised = "">>,
          <<"tokens-in-vocabulary", r.tokRaised = "" => r.allKeys>>,
          <<"encode-decode-identity", (r.tokRaised = "" /\ r.allKeys) => r.codecIdentity>>,
          <<"detokenise-succeeds", (r.tokRaised = "" /\ r.allKeys) => r.detokRaised = "">>,
          <<"bins-well-formed", BinsOk(r.cfg)>>,
          <<"one-sequence-per-track", ok => Len(r.out.tracks) = c.tracks>>,
          <<"notes-exact-with-binned-velocity", (ok /\ BinsOk(r.cfg)) => OutNotes(r.out) = ExpectedNotes(c, pc)>>,
          <<"bar-grid", ok => outLines = lines>>,
          <<"bar-marks-on-grid", ok => \A i \in DOMAIN r.out.marks : RangeOf(r.out.marks[i]) \subseteq RangeOf(lines)>>,
          <<"duration-rounded-up", ok => \A i \in DOMAIN r.out.durs :
                                            r.out.durs[i] = (IF LastNoteEnd(r.out, i) > lastBar THEN LastNoteEnd(r.out, i) ELSE lastBar)>> >>

VocabClauses(r) ==
    LET n == Len(r.entries)
        ids == {r.entries[i].id : i \in 1 .. n}
    IN << <<"ids-are-0-to-size-1", ids = 0 .. (n - 1)>>,
          <<"size-reported", r.size = n>>,
          <<"decode-encode-identity", \A i \in 1 .. n : r.entries[i].decEnc>>,
          <<"encode-decode-identity", \A i \in 1 .. n : r.entries[i].encDec>>,
          <<"every-token-accepted-by-detokenise", \A i \in 1 .. n : r.entries[i].detokOk>>,
          <<"inverse-dictionary-same-size", r.inverseSize = n>> >>
WitnessClauses(r) ==
    << <<"tokenise-succeeds", r.tokRaised = "">>,
       <<"emitted-tokens-in-vocabulary", r.tokRaised = "" => r.allKeys>>,
       <<"encode-succeeds", r.tokRaised = "" => r.codecIdentity>>,
       <<"wanted-token-emitted", (r.tokRaised = "" /\ r.allKeys) => \E i \in DOMAIN r.parsed : r.parsed[i] = r.want>> >>

(* C02 closure: whatever input tokenise ACCEPTS, every emitted token is a vocabulary member that encodes and detokenises;
   an input may be rejected, but only with the tokeniser's own error *)
ClosureClauses(r) ==
    LET accepted == r.tokRaised = "" IN
    << <<"rejects-only-with-tokenisation-error", r.tokRaised \in {"", "TokenisationException"}>>,
       <<"emitted-tokens-in-vocabulary", accepted => r.allKeys>>,
       <<"encode-decode-identity", (accepted /\ r.allKeys) => r.codecIdentity>>,
       <<"accepted-by-detokenise", (accepted /\ r.allKeys) => r.detokRaised = "">> >>

(* C03: r.chunked / r.single are detokenised outputs [tracks, marks, sigs, durs] *)
InForceAt(sigs, t) == LET here == SelectSeq(sigs, LAMBDA q : q[1] <= t) IN
                      IF here = <<>> THEN <<4, 4>> ELSE <<here[Len(here)][2], here[Len(here)][3]>>
ChunkClauses(r) ==
    LET ok == r.raised = ""
        ticks == {0} \cup UNION {RangeOf(r.single.marks[i]) : i \in DOMAIN r.single.marks}
                 \cup UNION {RangeOf(r.chunked.marks[i]) : i \in DOMAIN r.chunked.marks}
    IN << <<"no-error", ok>>,
          <<"same-notes", ok => OutNotes(r.chunked) = OutNotes(r.single)>>,
          <<"same-bar-marks", ok => r.chunked.marks = r.single.marks>>,
          <<"same-duration", ok => r.chunked.durs = r.single.durs>>,
          <<"same-signatures-in-force", ok => \A t \in ticks : InForceAt(r.chunked.sigs, t) = InForceAt(r.single.sigs, t)>>,
          <<"single-call-reproduces-bars", ok => OutNotes(r.single) = RangeOf(r.expected)>> >>

(* C19: r.info = [pos, time, timeBar, pitch, cof] (lists), r.placed[i] = [note |-> BOOLEAN, s, p] from prefix detokenisation *)
InfoClauses(r) ==
    LET n == r.n
        ok == r.raised = ""
        isNote(i) == r.placed[i].note
    IN << <<"no-error", ok>>,
          <<"one-entry-per-token", ok => /\ Len(r.info.pos) = n /\ Len(r.info.time) = n /\ Len(r.info.timeBar) = n
                                         /\ Len(r.info.pitch) = n /\ Len(r.info.cof) = n>>,
          <<"positions-count-up", ok => \A i \in 1 .. Len(r.info.pos) : r.info.pos[i] = i - 1>>,
          <<"time-is-detokenised-onset", ok => \A i \in 1 .. n : isNote(i) => r.info.time[i] = r.placed[i].s>>,
          <<"pitch-is-note-pitch", ok => \A i \in 1 .. n : isNote(i) => r.info.pitch[i] = r.placed[i].p>>,
          <<"circle-of-fifths-position", ok => \A i \in 1 .. n : isNote(i) => r.info.cof[i] = CofPosition(r.placed[i].p)>>,
          <<"in-bar-time", (ok /\ r.fromTokenise) => \A i \in 1 .. n : isNote(i) =>
                               r.info.timeBar[i] = r.placed[i].s - MaxS({0} \cup {b \in RangeOf(r.barLines) : b <= r.placed[i].s})>>,
          <<"times-never-decrease", (ok /\ r.fromTokenise) => \A i \in 2 .. n : r.info.time[i - 1] <= r.info.time[i]>>,
          <<"imputed-agrees", ok => r.imputedSame>> >>

Verdict(r) == CASE r.kind = "roundtrip" -> Fails(RoundTripClauses(r))
                [] r.kind = "vocab" -> Fails(VocabClauses(r))
                [] r.kind = "witness" -> Fails(WitnessClauses(r))
                [] r.kind = "closure" -> Fails(ClosureClauses(r))
                [] r.kind = "chunk" -> Fails(ChunkClauses(r))
                [] r.kind = "info" -> Fails(InfoClauses(r))
                [] OTHER -> <<"unknown-line-kind">>
(* diagnostic: does the real token stream equal the reference automaton's (same order of same-tick events)? *)
SameAsReference(r) == r.kind = "roundtrip" /\ r.tokRaised = "" /\ r.parsedOk
                      /\ r.parsed = TokeniseCall(CfgOf(r.cfg), FreshCarry(CfgOf(r.cfg)), PieceEvents(PieceOf(r.piece))).out
TraceInit == /\ TraceStart /\ cfg = <<>> /\ piece = <<>> /\ cuts = {} /\ nc = 0 /\ phase = "done" /\ ci = 1 /\ ei = 1 /\ evs = <<>>
             /\ carry = <<>> /\ acc = <<>> /\ toks = <<>> /\ ti = 1 /\ d = <<>> /\ inf = <<>>
TraceNext == HasLine /\ Advance /\ UNCHANGED vars
             /\ Emit([id |-> Line.id, fails |-> Verdict(Line), sameAsRef |-> SameAsReference(Line)])
=============================================================================
