--------------------------- MODULE Trace_Normalise ---------------------------
EXTENDS Normalise, TraceBase
T_Alphabet == {}
T_Max == 0
T_NoDefect == {}
Verdict(r) == IF r.raised # "" THEN <<"raised">> ELSE Fails(NormaliseClauses(r.in, r.out, r.out2) \o << <<"views-agree", SameContent(r.outAbs, r.out)>> >>)
TraceInit == /\ TraceStart /\ input = <<>> /\ pos = 1 /\ open = <<>> /\ firstOn = <<>> /\ tsIn = <<>> /\ ksIn = <<>>
             /\ buf = 0 /\ out = <<>> /\ done = FALSE
TraceNext == HasLine /\ Advance /\ UNCHANGED vars
             /\ Emit([id |-> Line.id, fails |-> Verdict(Line), paired |-> Paired(RelEvents(Line.in))])
=============================================================================
