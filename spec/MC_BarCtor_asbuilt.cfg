CONSTANT Sigs <- MC_Sigs
CONSTANT Durations <- MC_Durations
CONSTANT Defect <- AsBuilt
INIT Init
NEXT Next
INVARIANT ExactOrRejected
INVARIANT RejectsWhatItMust
INVARIANT AcceptsTheRest
CHECK_DEADLOCK FALSE
