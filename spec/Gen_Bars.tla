------------------------------- MODULE Gen_Bars -------------------------------
(* Writes the factors of the generated input spaces for C09 (meta plans x durations x track scores) and for C10
   (constructor cases: sequence shorter / equal / longer than the capacity x signature-event plans x signatures). *)
EXTENDS MC_Bars, Json, IOUtils, TLC
Thorough == "VERIF_TIER" \in DOMAIN IOEnv /\ IOEnv.VERIF_TIER = "thorough"
(* notes inside bars, on bar lines and across bar lines (for 4/4, 3/4, 2/4 and 6/8 grids) *)
TrackCands == NoteCands({0}, {60}, {0, 40, 60, 90, 92, 168}, {4, 12, 36}, {80})
              \cup NoteCands({0}, {64}, {44, 70, 94}, {4, 8, 60, 110}, {50})
              \cup NoteCands({1}, {60}, {0, 93}, {6, 24}, {90})
TrackScores == {[notes |-> N, extras |-> {}, dur |-> 0] : N \in NoteSets(TrackCands, 2)}
Sigs == {<<4, 4>>, <<3, 4>>, <<2, 4>>, <<6, 8>>, <<2, 2>>, <<7, 8>>, <<12, 8>>, <<3, 8>>, <<5, 4>>}
CtorNotes == NoteSets(NoteCands({0}, {60, 62}, {0, 10, 30}, {6, 20, 70}, {80}), 1)
             \cup {{[ch |-> 0, p |-> 60, s |-> 0, e |-> 6, v |-> 80], [ch |-> 1, p |-> 60, s |-> 3, e |-> 30, v |-> 70]}}
(* signature-event plans relative to the bar's own signature s and another one o *)
TsPlans(s, o) == {{}, {MTs(0, 0, s[1], s[2])}, {MTs(0, 0, o[1], o[2])}, {MTs(12, 0, s[1], s[2])},
                  {MTs(0, 0, s[1], s[2]), MTs(12, 0, o[1], o[2])}, {MTs(0, 0, s[1], s[2]), MTs(12, 0, s[1], s[2])},
                  {MTs(0, 0, o[1], o[2]), MTs(12, 0, s[1], s[2])}, {MTs(0, 0, s[1], s[2]), MKs(0, 0, "G")},
                  \* two signature events on one tick (the harness lays them out in both orders)
                  {MTs(0, 0, s[1], s[2]), MTs(0, 0, o[1], o[2])}, {MTs(12, 0, s[1], s[2]), MTs(12, 0, o[1], o[2])},
                  {MTs(0, 0, s[1], s[2]), MTs(0, 0, o[1], o[2]), MTs(0, 0, 5, 8)}}
Other(s) == IF s = <<4, 4>> THEN <<3, 4>> ELSE <<4, 4>>
CtorCases == UNION {{[notes |-> N, extras |-> X, dur |-> d, num |-> s[1], den |-> s[2]] :
                        N \in CtorNotes, X \in TsPlans(s, Other(s)),
                        d \in {0, LenOf(s) - 1, LenOf(s), LenOf(s) + 1, LenOf(s) + 24, 2 * LenOf(s), LenOf(s) * PPQN}} : s \in Sigs}
GenInit == meta = <<>> /\ maxDur = 0 /\ t = 0 /\ grid = <<>>
GenNext == UNCHANGED vars
ASSUME ndJsonSerialize(IOEnv.GEN_FILE, <<[metaTracks |-> SetToSeq(MC_MetaTracks), durations |-> SetToSeq(MC_Durations),
                                          trackScores |-> SetToSeq(TrackScores), ctorCases |-> SetToSeq(CtorCases)]>>)
=============================================================================
