-------------------------------- MODULE Merge --------------------------------
(***************************************************************************)
(* C15: merging sequences.  Abstract state: the piano roll merged so far    *)
(* (fused notes per channel and pitch), the signature events, the duration. *)
(* One action merges one more sequence in; every merge order is a behaviour, *)
(* and the final state must not depend on the order.                         *)
(***************************************************************************)
EXTENDS Inputs

(* maximal runs of a set of ticks, as <<start, end>> (end exclusive) *)
Runs(T) == {<<s, CHOOSE e \in (s + 1) .. (MaxOf(T, 0) + 1) : e \notin T /\ \A x \in s .. (e - 1) : x \in T>> :
               s \in {x \in T : (x - 1) \notin T}}
(* fusion of OVERLAPPING notes of one key (abutting notes stay apart): a note [s, e) covers the half-tick points
   2s+1 .. 2e-1, so two notes share a point exactly if they overlap *)
KeysOfNotes(N) == {<<x.ch, x.p>> : x \in N}
PointsOf(N, k) == UNION {(2 * x.s + 1) .. (2 * x.e - 1) : x \in {y \in N : y.ch = k[1] /\ y.p = k[2]}}
FuseNotes(N) == UNION {{[ch |-> k[1], p |-> k[2], s |-> (r[1] - 1) \div 2, e |-> r[2] \div 2] : r \in Runs(PointsOf(N, k))} :
                          k \in KeysOfNotes(N)}
SoundOfNotes(N) == UNION {{<<x.ch, x.p, t>> : t \in x.s .. (x.e - 1)} : x \in N}

(* signature events surviving a merge: all events ordered by tick, those repeating the value in force dropped *)
DedupAcc(a, m) == IF SigVal(m) = a.cur THEN a ELSE [cur |-> SigVal(m), out |-> Append(a.out, <<m.t, SigVal(m)>>)]
Dedup(sigs) == FoldLeft(DedupAcc, [cur |-> <<>>, out |-> <<>>], sigs).out
SigStream(evs, kind) == LET s == SigsOf(evs, kind) IN [i \in DOMAIN s |-> <<s[i].t, SigVal(s[i])>>]
MergedSigs(inputs, kind) ==
    LET all == UNION {{m \in SeqRange(AbsEvents(inputs[i])) : m.ty = kind} : i \in DOMAIN inputs}
    IN Dedup(SortSeq(SetToSeq(all), LAMBDA a, b : a.t < b.t \/ (a.t = b.t /\ a.n < b.n)))
(* different signatures of one kind on the same tick are outside the property *)
SigsSeparable(inputs, kind) ==
    LET all == UNION {{m \in SeqRange(AbsEvents(inputs[i])) : m.ty = kind} : i \in DOMAIN inputs}
    IN \A a, b \in all : a.t = b.t => SigVal(a) = SigVal(b)

(* r: [inputs (seq of abs), outAbs, outRel, orders (seq of abs results, one per merge order)] *)
MergeClauses(r) ==
    LET oe == RelEvents(r.outRel)
        d == RelDur(r.outRel)
        union == UNION {Sounding(AbsEvents(r.inputs[i]), AbsDur(r.inputs[i])) : i \in DOMAIN r.inputs}
        noteKeys(abs) == {NoteKeyOnly(x) : x \in Notes(AbsEvents(abs))}
    IN << <<"sound-is-union", Sounding(oe, d) = union>>,
          <<"well-formed", WellFormed(oe)>>,
          <<"fused-notes", {NoteNoVel(x) : x \in Notes(oe)}
                           = FuseNotes(UNION {{NoteNoVel(x) : x \in Notes(AbsEvents(r.inputs[i]))} : i \in DOMAIN r.inputs})>>,
          <<"time-signatures-kept", SigStream(oe, "ts") = MergedSigs(r.inputs, "ts")>>,
          <<"key-signatures-kept", SigStream(oe, "ks") = MergedSigs(r.inputs, "ks")>>,
          <<"duration-is-max", d = MaxOf({AbsDur(r.inputs[i]) : i \in DOMAIN r.inputs}, 0)>>,
          <<"views-agree", Notes(AbsEvents(r.outAbs)) = Notes(oe) /\ AbsDur(r.outAbs) = d>>,
          <<"order-independent", \A j \in DOMAIN r.orders : noteKeys(r.orders[j]) = noteKeys(r.outAbs)>> >>
InMergeDomain(r) == /\ \A i \in DOMAIN r.inputs : WellFormed(AbsEvents(r.inputs[i])) /\ NoOverlap(Notes(AbsEvents(r.inputs[i])))
                    /\ SigsSeparable(r.inputs, "ts") /\ SigsSeparable(r.inputs, "ks")

(* ---- reference transition system: merge the family in any order ---- *)
CONSTANTS Families
VARIABLES family, pending, notes, dur
vars == <<family, pending, notes, dur>>
MInit == family \in Families /\ pending = DOMAIN family /\ notes = {} /\ dur = 0
ScoreSound(sc) == SoundOfNotes(sc.notes)
MergeIn(i) == /\ i \in pending
              /\ notes' = FuseNotes(notes \cup {NoteNoVel(x) : x \in family[i].notes})
              /\ dur' = Max2(dur, Max2(family[i].dur, MaxOf({x.e : x \in family[i].notes}, 0)))
              /\ pending' = pending \ {i} /\ UNCHANGED family
MNext == \E i \in DOMAIN family : MergeIn(i)
MDone == pending = {}
(* confluence: whatever the order, the result is the fusion of the union *)
OrderIndependent == MDone => notes = FuseNotes(UNION {{NoteNoVel(x) : x \in family[i].notes} : i \in DOMAIN family})
SoundIsUnion == MDone => SoundOfNotes(notes) = UNION {ScoreSound(family[i]) : i \in DOMAIN family}
FusedWellFormed == NoOverlap(notes) /\ \A x \in notes : x.e > x.s
FusedMaximal == NoOverlap(notes)
DurationIsMax == MDone => dur = MaxOf({Max2(family[i].dur, MaxOf({x.e : x \in family[i].notes}, 0)) : i \in DOMAIN family}, 0)
=============================================================================
