CONSTANT Bases <- MC_Bases
INIT EInit
NEXT ENext
INVARIANT TableHolds
CHECK_DEADLOCK FALSE
