--------------------------- MODULE MC_TrackProgram ---------------------------
EXTENDS TrackProgram
MPc(prog) == Msg("pc", -1, 0, prog, -1, -1, -1, "")
BarBodies == {<<MWait(96, 0)>>, <<MPc(5), MWait(96, 0)>>, <<MPc(7), MWait(96, 0)>>, <<MWait(48, 0), MPc(5), MWait(48, 0)>>,
              <<MPc(5), MWait(48, 0), MPc(7), MWait(48, 0)>>}
MC_BarLists == {<<>>} \cup {<<a>> : a \in BarBodies} \cup {<<a, b>> : a \in BarBodies, b \in BarBodies}
               \cup {<<a, b, c>> : a \in BarBodies, b \in BarBodies, c \in BarBodies}
=============================================================================
