---------------------------- MODULE MC_Quantise ----------------------------
EXTENDS Quantise, IOUtils
Thorough == "VERIF_TIER" \in DOMAIN IOEnv /\ IOEnv.VERIF_TIER = "thorough"
NoDefect == {}
D_Pitch == {"KeyedByPitchOnly"}
MC_StepLists == {<<4>>, <<6>>, <<4, 6>>, <<6, 4>>, <<3>>, <<8, 6, 4>>}
Cands2 == NoteCands({0, 1}, {60, 61}, 0 .. (IF Thorough THEN 9 ELSE 6), {1, 2, 3}, {80})
Cands1 == NoteCands({0, 1}, {60}, 0 .. 9, {1, 2, 3}, {80})
SigExtras == {{}} \cup {{MTs(t, 0, 3, 4)} : t \in {0, 5, 7}}
MC_Scores == {[notes |-> N, extras |-> X, dur |-> 0] : N \in NoteSets(Cands2, 2), X \in SigExtras}
             \cup (IF Thorough THEN {[notes |-> N, extras |-> {}, dur |-> 14] : N \in NoteSets(Cands1, 3)} ELSE {})
=============================================================================
