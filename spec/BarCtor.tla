------------------------------- MODULE BarCtor -------------------------------
(***************************************************************************)
(* C10: the Bar constructor as a sequence of steps over an abstract input:   *)
(* the duration of the given sequence and the list of its time-signature     *)
(* events.  Steps: normalise (a signature repeating the one in force is      *)
(* folded) - check capacity - pad - check signatures - install the bar's own *)
(* signature.  The intended design counts the signature events of the INPUT; *)
(* as built ("CountAfterNormalise") they are counted after normalisation, so *)
(* an identical repeat slips through (recorded open finding).                *)
(***************************************************************************)
EXTENDS Integers, Sequences, FiniteSets

CONSTANTS Sigs, Durations, Defect
PPQN == 24
Cap(sig) == (sig[1] * 4 * PPQN) \div sig[2]

VARIABLES bar, dur, given, sigs, phase
vars == <<bar, dur, given, sigs, phase>>

SigLists == {<<>>} \cup {<<a>> : a \in Sigs} \cup {<<a, b>> : a \in Sigs, b \in Sigs}
Init == /\ bar \in Sigs /\ dur \in Durations /\ given \in SigLists /\ sigs = given /\ phase = "start"

RECURSIVE Fold(_, _)
Fold(s, last) == IF s = <<>> THEN <<>> ELSE IF Head(s) = last THEN Fold(Tail(s), last) ELSE <<Head(s)>> \o Fold(Tail(s), Head(s))
Normalise == phase = "start" /\ sigs' = Fold(sigs, <<>>) /\ phase' = "normalised" /\ UNCHANGED <<bar, dur, given>>
CheckCapacity == /\ phase = "normalised"
                 /\ phase' = IF dur > Cap(bar) THEN "rejected" ELSE "fits"
                 /\ UNCHANGED <<bar, dur, given, sigs>>
Pad == phase = "fits" /\ dur' = Cap(bar) /\ phase' = "padded" /\ UNCHANGED <<bar, given, sigs>>
Counted == IF "CountAfterNormalise" \in Defect THEN sigs ELSE given
CheckSignatures == /\ phase = "padded"
                   /\ phase' = IF Len(Counted) > 1 \/ \E i \in DOMAIN Counted : Counted[i] # bar THEN "rejected" ELSE "verified"
                   /\ UNCHANGED <<bar, dur, given, sigs>>
Install == phase = "verified" /\ sigs' = <<bar>> /\ phase' = "built" /\ UNCHANGED <<bar, dur, given>>
Next == Normalise \/ CheckCapacity \/ Pad \/ CheckSignatures \/ Install

(* the property, on the abstract input *)
MustReject == dur > Cap(bar) \/ Len(given) > 1 \/ \E i \in DOMAIN given : given[i] # bar
Terminal == phase \in {"built", "rejected"}
ExactOrRejected == phase = "built" => (dur = Cap(bar) /\ sigs = <<bar>>)
RejectsWhatItMust == Terminal => (MustReject => phase = "rejected")
AcceptsTheRest == Terminal => (~MustReject => phase = "built")
=============================================================================
