------------------------------ MODULE Gen_Alias ------------------------------
(* Behaviours to replay: derivation route x side that is operated on x operation history.  In the reference system
   every operation is enabled on every object whose relative view is fresh (reads are implicit in the real calls),
   so the histories are Routes x Sides x Ops^k; the factors are written out. *)
EXTENDS MC_Alias, Json, IOUtils, SequencesExt
Routes == {"seq_copy", "bar_copy", "track_copy", "composition_copy", "split_first", "split_second",
           "split_bars", "split_bars_requantise", "split_bars_second_track", "split_bars_second_track_requantise",
           "seq_copy_doubled"}
Sides == {"derived", "original"}
OpKinds == {"in_place", "structural"}
GenInit == /\ heap = <<>> /\ objs = <<>> /\ want = <<>> /\ nextCell = 1 /\ ops = 0 /\ lastOp = "init"
GenNext == UNCHANGED vars
ASSUME ndJsonSerialize(IOEnv.GEN_FILE, <<[routes |-> SetToSeq(Routes), sides |-> SetToSeq(Sides), kinds |-> SetToSeq(OpKinds),
                                          maxOps |-> MC_MaxOps]>>)
=============================================================================
