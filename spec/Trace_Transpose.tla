--------------------------- MODULE Trace_Transpose ---------------------------
EXTENDS Transpose, TraceBase
T_Empty == {}
Verdict(r) ==
    LET pre == RelEvents(r.pre.rel)
        post == RelEvents(r.post.rel)
        postA == AbsEvents(r.post.abs)
        back == [done |-> r.back.done, evs |-> RelEvents(r.back.rel), flag |-> r.back.flag]
        dom == WellFormed(pre) /\ NoOverlap(Notes(pre))
        base == TransposeClauses(pre, r.i, post, r.flag, back)
                \o << <<"views-agree", Notes(post) = Notes(postA) /\ NonNoteBag(post) = NonNoteBag(postA)>>,
                      <<"output-well-formed", WellFormed(post) /\ NoOverlap(Notes(post))>> >>
        bar == IF r.kind = "bar" THEN BarKeyClauses(r.kin, r.i, r.kout) ELSE <<>>
    IN IF ~r.post.readable THEN <<"raised-or-unreadable">>
       ELSE IF ~dom
            THEN (* a legal but un-normalised sequence (a pitch struck again before its release): when nothing has to be
                    moved by octaves, every note message is shifted by exactly the interval, message by message *)
                 (IF r.kind = "seq" /\ ~NeedsWrap(pre, r.i)
                  THEN LET np == SelectSeq(r.pre.rel, IsNote) nq == SelectSeq(r.post.rel, IsNote) IN
                       Fails(<< <<"every-message-shifted", /\ Len(nq) = Len(np) /\ r.flag = FALSE
                                                           /\ \A j \in DOMAIN np : j \in DOMAIN nq =>
                                                                  (nq[j].ty = np[j].ty /\ nq[j].ch = np[j].ch /\ nq[j].p = np[j].p + r.i)>> >>)
                  ELSE <<>>)
       ELSE Fails(base \o bar)
TraceInit == TraceStart /\ src = <<>> /\ by = 0 /\ pos = 1 /\ out = <<>> /\ moved = FALSE
TraceNext == HasLine /\ Advance /\ UNCHANGED vars /\ Emit([id |-> Line.id, fails |-> Verdict(Line)])
=============================================================================
