------------------------------ MODULE Pairings ------------------------------
(***************************************************************************)
(* Extension X01 (beyond the listed properties): get_message_pairings and   *)
(* get_interleaved_message_pairings, the hidden dependency of equals,       *)
(* cutoff, quantise_note_lengths and tokenise.                              *)
(*                                                                          *)
(* The closing rule, stated declaratively for ANY input (well-formed or     *)
(* not) with imputation on: in the canonical order (time, note-off before   *)
(* note-on) every note-on opens exactly one pairing; the pairing is closed  *)
(* by the next event of its channel and pitch - a note-off, or a re-strike  *)
(* (then an imputed note-off at the re-strike's tick) - and by an imputed   *)
(* note-off `L` ticks after its start when nothing follows.  A note-off     *)
(* that closes nothing is ignored.  Other requested message types are       *)
(* singletons.  The interleaved form is a merge of the per-channel lists by *)
(* start time.  Neither call changes the sequence.                          *)
(***************************************************************************)
EXTENDS Inputs

(* the library's sort key: (time, channel, message type - note-off before note-on -, pitch) *)
PCanonLess(a, b) == \/ a.t < b.t
                    \/ (a.t = b.t /\ a.ch < b.ch)
                    \/ (a.t = b.t /\ a.ch = b.ch /\ Rank(a.ty) < Rank(b.ty))
                    \/ (a.t = b.t /\ a.ch = b.ch /\ Rank(a.ty) = Rank(b.ty) /\ a.p < b.p)
Canon(evs) == SortSeq(evs, PCanonLess)
SameKey(a, b) == a.ch = b.ch /\ a.p = b.p
(* closing tick of the note-on at position j of the canonical list *)
Closing(evs, j, L) ==
    LET later == {q \in (j + 1) .. Len(evs) : IsNote(evs[q]) /\ SameKey(evs[q], evs[j])}
    IN IF later = {} THEN evs[j].t + L ELSE evs[MinOf(later, 0)].t
ChannelsOf(evs, types) == {evs[i].ch : i \in {j \in DOMAIN evs : evs[j].ty \in types}}
First(pg) == pg[1]
(* r.pairs: sequence of [ch, list] (list: sequence of pairings, a pairing a sequence of 1..2 messages)
   r.inter: sequence of [ch, items] *)
PairingClauses(in, types, L, pairs, inter, after) ==
    LET evs == Canon(AbsEvents(in))
        chans == ChannelsOf(evs, types)
        listOf(c) == LET s == SelectSeq(pairs, LAMBDA x : x.ch = c) IN IF s = <<>> THEN <<>> ELSE s[1].list
        all == UNION {{pairs[i].list[j] : j \in DOMAIN pairs[i].list} : i \in DOMAIN pairs}
        onIdx(c) == SelectSeq([j \in DOMAIN evs |-> j], LAMBDA j : evs[j].ty = "on" /\ evs[j].ch = c)
        notePairs(c) == SelectSeq(listOf(c), LAMBDA pg : First(pg).ty = "on")
        otherEvs(c) == SelectSeq(evs, LAMBDA m : m.ch = c /\ m.ty \in types /\ ~IsNote(m))
        otherPairs(c) == SelectSeq(listOf(c), LAMBDA pg : ~IsNote(First(pg)))
        starts(l) == [j \in DOMAIN l |-> First(l[j]).t]
        interItems == [j \in DOMAIN inter |-> inter[j].items]
    IN << <<"one-entry-per-channel", /\ {pairs[i].ch : i \in DOMAIN pairs} = chans
                                     /\ \A i, j \in DOMAIN pairs : i # j => pairs[i].ch # pairs[j].ch>>,
          <<"shape", \A pg \in all : /\ Len(pg) \in {1, 2} /\ First(pg).ty # "off"
                                     /\ (First(pg).ty = "on" => (Len(pg) = 2 /\ pg[2].ty = "off" /\ SameKey(pg[1], pg[2])
                                                                 /\ pg[2].t >= pg[1].t))
                                     /\ (First(pg).ty # "on" => Len(pg) = 1)>>,
          <<"own-channel", \A i \in DOMAIN pairs : \A pg \in {pairs[i].list[j] : j \in DOMAIN pairs[i].list} :
                               \A q \in DOMAIN pg : pg[q].ch = pairs[i].ch>>,
          <<"every-note-on-once", \A c \in chans : /\ Len(notePairs(c)) = Len(onIdx(c))
                                                   /\ \A j \in DOMAIN onIdx(c) : j \in DOMAIN notePairs(c) =>
                                                         First(notePairs(c)[j]) = evs[onIdx(c)[j]]>>,
          <<"closing-rule", \A c \in chans : \A j \in DOMAIN onIdx(c) : (j \in DOMAIN notePairs(c) /\ Len(notePairs(c)[j]) = 2) =>
                                notePairs(c)[j][2].t = Closing(evs, onIdx(c)[j], L)>>,
          <<"other-types-singletons", \A c \in chans : [j \in DOMAIN otherPairs(c) |-> First(otherPairs(c)[j])] = otherEvs(c)>>,
          <<"start-order", \A i \in DOMAIN pairs : \A j \in 1 .. (Len(pairs[i].list) - 1) :
                               starts(pairs[i].list)[j] <= starts(pairs[i].list)[j + 1]>>,
          <<"well-formed-notes", (WellFormed(evs) /\ {"on", "off"} \subseteq types) =>
                                    {[ch |-> pg[1].ch, p |-> pg[1].p, s |-> pg[1].t, e |-> pg[2].t, v |-> pg[1].v] :
                                        pg \in {x \in all : First(x).ty = "on" /\ Len(x) = 2}} = Notes(evs)>>,
          <<"interleaved-is-merge", /\ BagOfSeq(interItems) = BagOfSeq(FoldLeft(LAMBDA a, x : a \o x.list, <<>>, pairs))
                                    /\ \A j \in 1 .. (Len(inter) - 1) : First(inter[j].items).t <= First(inter[j + 1].items).t
                                    /\ \A c \in chans : [j \in DOMAIN SelectSeq(inter, LAMBDA x : x.ch = c) |->
                                                            SelectSeq(inter, LAMBDA x : x.ch = c)[j].items] = listOf(c)
                                    /\ \A j \in DOMAIN inter : inter[j].ch \in chans>>,
          <<"sequence-unchanged", EventBag(AbsEvents(after)) = EventBag(AbsEvents(in)) /\ AbsDur(after) = AbsDur(in)>> >>

(* ---- reference transition system: the pairing loop, one action per message ---- *)
CONSTANTS Inputs, Lengths
VARIABLES src, len, pos, open, out, phase
vars == <<src, len, pos, open, out, phase>>
PTypes == {"on", "off", "ts"}
PInit == /\ src \in Inputs /\ len \in Lengths /\ pos = 1 /\ open = <<>> /\ out = <<>> /\ phase = "walk"
Key(m) == <<m.ch, m.p>>
(* out: sequence of pairings in creation order; open: key -> index into out *)
POn == /\ phase = "walk" /\ pos <= Len(src) /\ src[pos].ty = "on"
       /\ LET m == src[pos]
              closed == IF Key(m) \in DOMAIN open
                        THEN [out EXCEPT ![open[Key(m)]] = Append(@, MOff(m.t, m.ch, m.p))] ELSE out
          IN /\ out' = Append(closed, <<m>>)
             /\ open' = [k \in DOMAIN open \cup {Key(m)} |-> IF k = Key(m) THEN Len(closed) + 1 ELSE open[k]]
       /\ pos' = pos + 1 /\ UNCHANGED <<src, len, phase>>
POff == /\ phase = "walk" /\ pos <= Len(src) /\ src[pos].ty = "off"
        /\ LET m == src[pos] IN
           IF Key(m) \in DOMAIN open
           THEN /\ out' = [out EXCEPT ![open[Key(m)]] = Append(@, m)]
                /\ open' = [k \in DOMAIN open \ {Key(m)} |-> open[k]]
           ELSE UNCHANGED <<out, open>>
        /\ pos' = pos + 1 /\ UNCHANGED <<src, len, phase>>
POther == /\ phase = "walk" /\ pos <= Len(src) /\ ~IsNote(src[pos])
          /\ out' = (IF src[pos].ty \in PTypes THEN Append(out, <<src[pos]>>) ELSE out)
          /\ pos' = pos + 1 /\ UNCHANGED <<src, len, open, phase>>
PFinish == /\ phase = "walk" /\ pos > Len(src)
           /\ out' = [j \in DOMAIN out |-> IF Len(out[j]) = 1 /\ out[j][1].ty = "on"
                                           THEN Append(out[j], MOff(out[j][1].t + len, out[j][1].ch, out[j][1].p)) ELSE out[j]]
           /\ phase' = "done" /\ UNCHANGED <<src, len, pos, open>>
PNext == POn \/ POff \/ POther \/ PFinish
(* the reference output in the shape of the observation *)
RefChans == SortSeq(SetToSeq(ChannelsOf(src, PTypes)), LAMBDA a, b : a < b)     \* an entry for every channel seen, even an empty one
RefPairs == [i \in DOMAIN RefChans |-> [ch |-> RefChans[i], list |-> SelectSeq(out, LAMBDA pg : pg[1].ch = RefChans[i])]]
RefInter == LET idx == SortSeq([j \in DOMAIN out |-> j], LAMBDA a, b : out[a][1].t < out[b][1].t \/ (out[a][1].t = out[b][1].t /\ a < b))
            IN [j \in DOMAIN idx |-> [ch |-> out[idx[j]][1].ch, items |-> out[idx[j]]]]
AllHold(cl) == \A j \in DOMAIN cl : cl[j][2]
MeetsAcceptor == phase = "done" => AllHold(PairingClauses(src, PTypes, len, RefPairs, RefInter, src))
OpenTableInv == phase = "walk" => \A k \in DOMAIN open : open[k] \in DOMAIN out /\ Len(out[open[k]]) = 1 /\ out[open[k]][1].ty = "on"
=============================================================================
