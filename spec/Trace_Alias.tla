----------------------------- MODULE Trace_Alias -----------------------------
(* Validates derivation / mutation histories executed on real objects.  A line carries the contents (both views of
   every sequence of the object) of the original and of the derived object before and after the history was applied to
   one side.  The specification's statement: an operation on one object never shows through another. *)
EXTENDS Alias, Music, TraceBase
T_Zero == 0
T_Empty == {}
ContentOfView(v) == [abs |-> [bag |-> EventBag(AbsEvents(v.abs)), dur |-> AbsDur(v.abs), notes |-> Notes(AbsEvents(v.abs))],
                     rel |-> [bag |-> EventBag(RelEvents(v.rel)), dur |-> RelDur(v.rel), notes |-> Notes(RelEvents(v.rel))]]
ObjContent(o) == [i \in DOMAIN o |-> ContentOfView(o[i])]
Readable(o) == \A i \in DOMAIN o : o[i].readable
ViewsAgree(o) == \A i \in DOMAIN o : LET c == ContentOfView(o[i]) IN c.abs = c.rel
Verdict(r) ==
    LET watchedBefore == IF r.side = "derived" THEN r.before.orig ELSE r.before.der
        watchedAfter == IF r.side = "derived" THEN r.after.orig ELSE r.after.der
        isCopy == r.route \in {"seq_copy", "bar_copy", "track_copy", "composition_copy"}
    IN IF r.raised # "" THEN <<"raised">>
       ELSE Fails(<< <<"readable", Readable(r.after.orig) /\ Readable(r.after.der)>>,
                     <<"copy-equals-original", isCopy => (ObjContent(r.before.der) = ObjContent(r.before.orig) /\ r.equalsApi /\ r.attrsEqual)>>,
                     <<"derivation-leaves-original-unchanged", r.preDerive # <<>> => ObjContent(r.preDerive) = ObjContent(r.before.orig)>>,
                     <<"untouched-side-unchanged", Readable(watchedAfter) => ObjContent(watchedAfter) = ObjContent(watchedBefore)>>,
                     <<"untouched-side-views-agree", Readable(watchedAfter) => ViewsAgree(watchedAfter)>>,
                     <<"operated-side-views-agree", LET x == IF r.side = "derived" THEN r.after.der ELSE r.after.orig IN
                                                    Readable(x) => ViewsAgree(x)>> >>)
TraceInit == TraceStart /\ heap = <<>> /\ objs = <<>> /\ want = <<>> /\ nextCell = 1 /\ ops = 0 /\ lastOp = "init"
TraceNext == HasLine /\ Advance /\ UNCHANGED vars /\ Emit([id |-> Line.id, fails |-> Verdict(Line)])
=============================================================================
