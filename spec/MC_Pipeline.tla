----------------------------- MODULE MC_Pipeline -----------------------------
EXTENDS Pipeline, IOUtils
Thorough == "VERIF_TIER" \in DOMAIN IOEnv /\ IOEnv.VERIF_TIER = "thorough"
Plans == {<< <<4, 4>> >>, << <<4, 4>>, <<4, 4>> >>, << <<3, 4>>, <<4, 4>> >>, << <<4, 4>>, <<3, 8>> >>, << <<2, 4>>, <<2, 4>>, <<3, 4>> >>,
          << <<6, 8>>, <<2, 2>> >>}
Cands(plan) == {x \in NoteCands({0}, {60, 64}, IF Thorough THEN {0, 12, 36, 48, 72, 84, 96, 108, 132, 144, 168} ELSE {0, 12, 48, 84, 96, 120, 156}, IF Thorough THEN {12, 24, 48} ELSE {12, 36}, {64}) : InsideBars({x}, plan)}
TrackSets(plan) == NoteSets(Cands(plan), IF Thorough THEN 3 ELSE 2)
MC_Pieces == UNION {{[tracks |-> <<a>>, plan |-> p] : a \in TrackSets(p)} : p \in Plans}
             \cup UNION {{[tracks |-> <<a, b>>, plan |-> p] : a \in NoteSets(Cands(p), 1), b \in NoteSets(Cands(p), 1)} : p \in Plans}
(* the source views of a piece: signature changes on the meta track (first track); every track as long as its content, the meta
   track up to the last bar line *)
SigExtras(plan) == {MTs(StartOf(plan, j), 0, plan[j][1], plan[j][2]) : j \in {q \in DOMAIN plan : (q = 1 /\ plan[1] # <<4, 4>>) \/ (q > 1 /\ plan[q] # plan[q - 1])}}
SrcViews(pc) == [i \in DOMAIN pc.tracks |-> RelOfNotes(pc.tracks[i], IF i = 1 THEN SigExtras(pc.plan) ELSE {},
                                                       IF i = 1 THEN StartOf(pc.plan, Len(pc.plan)) + 1 ELSE 0)]
=============================================================================
