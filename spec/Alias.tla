-------------------------------- MODULE Alias --------------------------------
(***************************************************************************)
(* C16: copies and derived sequences are independent values.                 *)
(* A heap of message cells; every object stores two lists of cells (one per  *)
(* view) and two freshness bits.  Deriving an object (copy at any level,     *)
(* split, bar splitting) allocates fresh cells in the intended design.       *)
(* In-place mutators (set_channel, transpose, scale, an edit while iterating)*)
(* change the cells of the relative view; structural mutators replace the    *)
(* cell list.  `want[o]` is the content object o is supposed to show.        *)
(***************************************************************************)
EXTENDS Integers, Sequences, FiniteSets, TLC

CONSTANTS MaxObjects, MaxOps, Defect
VARIABLES heap, objs, want, nextCell, ops, lastOp
vars == <<heap, objs, want, nextCell, ops, lastOp>>

Values(cells) == [i \in DOMAIN cells |-> heap[cells[i]]]
ViewRel(o) == IF objs[o].relFresh THEN Values(objs[o].rel) ELSE Values(objs[o].abs)
ViewAbs(o) == IF objs[o].absFresh THEN Values(objs[o].abs) ELSE Values(objs[o].rel)

(* allocate n fresh cells holding the given values *)
Fresh(vals) == [i \in DOMAIN vals |-> nextCell + i - 1]
HeapWith(cells, vals) == [c \in DOMAIN heap \cup {cells[i] : i \in DOMAIN cells} |->
                             IF \E i \in DOMAIN cells : cells[i] = c
                             THEN vals[CHOOSE i \in DOMAIN cells : cells[i] = c] ELSE heap[c]]

Init == /\ heap = (1 :> 10) @@ (2 :> 20)
        /\ objs = (1 :> [rel |-> <<1, 2>>, abs |-> <<>>, relFresh |-> TRUE, absFresh |-> FALSE])
        /\ want = (1 :> <<10, 20>>)
        /\ nextCell = 3 /\ ops = 0 /\ lastOp = "init"

Objects == DOMAIN objs
(* reading a view regenerates it from the other one into fresh cells *)
ReadAbs(o) == /\ ~objs[o].absFresh /\ ops < MaxOps
              /\ LET vals == Values(objs[o].rel) cells == Fresh(vals) IN
                 /\ heap' = HeapWith(cells, vals)
                 /\ objs' = [objs EXCEPT ![o].abs = cells, ![o].absFresh = TRUE]
                 /\ nextCell' = nextCell + Len(vals)
              /\ ops' = ops + 1 /\ lastOp' = "read_abs" /\ UNCHANGED want
ReadRel(o) == /\ ~objs[o].relFresh /\ ops < MaxOps
              /\ LET vals == Values(objs[o].abs) cells == Fresh(vals) IN
                 /\ heap' = HeapWith(cells, vals)
                 /\ objs' = [objs EXCEPT ![o].rel = cells, ![o].relFresh = TRUE]
                 /\ nextCell' = nextCell + Len(vals)
              /\ ops' = ops + 1 /\ lastOp' = "read_rel" /\ UNCHANGED want
(* set_channel / transpose / scale / an in-turn edit: the cells of the relative view are modified in place *)
InPlace(o) == /\ objs[o].relFresh /\ ops < MaxOps
              /\ heap' = [c \in DOMAIN heap |-> IF \E i \in DOMAIN objs[o].rel : objs[o].rel[i] = c THEN heap[c] + 1 ELSE heap[c]]
              /\ objs' = [objs EXCEPT ![o].absFresh = FALSE]
              /\ want' = [want EXCEPT ![o] = [i \in DOMAIN @ |-> @[i] + 1]]
              /\ ops' = ops + 1 /\ lastOp' = "in_place" /\ UNCHANGED nextCell
(* normalise / pad / quantise / overwrite ...: the view gets a new list of new cells *)
Structural(o) == /\ objs[o].relFresh /\ ops < MaxOps
                 /\ LET vals == [i \in DOMAIN want[o] |-> want[o][i] + 5] cells == Fresh(vals) IN
                    /\ heap' = HeapWith(cells, vals)
                    /\ objs' = [objs EXCEPT ![o].rel = cells, ![o].absFresh = FALSE]
                    /\ want' = [want EXCEPT ![o] = vals]
                    /\ nextCell' = nextCell + Len(vals)
                 /\ ops' = ops + 1 /\ lastOp' = "structural"
(* quantise / cutoff / add_absolute_message ...: act on the absolute view *)
StructuralAbs(o) == /\ objs[o].absFresh /\ ops < MaxOps
                    /\ LET vals == [i \in DOMAIN want[o] |-> want[o][i] + 7] cells == Fresh(vals) IN
                       /\ heap' = HeapWith(cells, vals)
                       /\ objs' = [objs EXCEPT ![o].abs = cells, ![o].relFresh = FALSE]
                       /\ want' = [want EXCEPT ![o] = vals]
                       /\ nextCell' = nextCell + Len(vals)
                    /\ ops' = ops + 1 /\ lastOp' = "structural_abs"
(* copy (sequence / bar / track / composition) and split / bar splitting: a new object; fresh cells unless defective *)
Derive(o, route) ==
    /\ Cardinality(Objects) < MaxObjects /\ objs[o].relFresh /\ ops < MaxOps
    /\ LET n == Cardinality(Objects) + 1
           vals == Values(objs[o].rel)
           share == route = "split" /\ "SplitSharesCells" \in Defect
           cells == IF share THEN objs[o].rel ELSE Fresh(vals)
       IN /\ heap' = IF share THEN heap ELSE HeapWith(cells, vals)
          /\ objs' = [x \in Objects \cup {n} |-> IF x = n THEN [rel |-> cells, abs |-> <<>>, relFresh |-> TRUE, absFresh |-> FALSE]
                                                   ELSE objs[x]]
          /\ want' = [x \in Objects \cup {n} |-> IF x = n THEN want[o] ELSE want[x]]
          /\ nextCell' = IF share THEN nextCell ELSE nextCell + Len(vals)
    /\ ops' = ops + 1 /\ lastOp' = route
DoReadAbs == \E o \in Objects : ReadAbs(o)
DoReadRel == \E o \in Objects : ReadRel(o)
DoInPlace == \E o \in Objects : InPlace(o)
DoStructural == \E o \in Objects : Structural(o)
DoStructuralAbs == \E o \in Objects : StructuralAbs(o)
DoCopy == \E o \in Objects : Derive(o, "copy")
DoSplit == \E o \in Objects : Derive(o, "split")
Next == DoReadAbs \/ DoReadRel \/ DoInPlace \/ DoStructural \/ DoStructuralAbs \/ DoCopy \/ DoSplit

(* every object shows, through both views, exactly the content it is supposed to have: an operation on one object
   never shows through another *)
Independent == \A o \in Objects : ViewRel(o) = want[o] /\ ViewAbs(o) = want[o]
NoSharedCells == \A a, b \in Objects : a # b =>
                    {objs[a].rel[i] : i \in DOMAIN objs[a].rel} \cap {objs[b].rel[i] : i \in DOMAIN objs[b].rel} = {}
=============================================================================
