------------------------------ MODULE MC_Split ------------------------------
EXTENDS Split, IOUtils
Thorough == "VERIF_TIER" \in DOMAIN IOEnv /\ IOEnv.VERIF_TIER = "thorough"
NoDefect == {}
D_Pitch == {"OpenKeyedByPitch"}
D_Queue == {"BoundaryQueueLostAtEnd"}
MC_CapLists == {<<4>>, <<4, 4>>, <<8>>, <<1>>, <<4, 8>>, <<10>>, <<12>>, <<4, 4, 4>>, <<20>>}
Cands == NoteCands({0, 1}, {60}, {0, 2, 4, 7}, {1, 3, 5, 9}, {80}) \cup NoteCands({0}, {61}, {0, 3, 4}, {1, 4, 9}, {40})
Extras == {{}, {MTs(0, 0, 3, 4)}, {MTs(4, 0, 3, 4)}, {MTs(8, 0, 6, 8), MKs(0, 0, "D")}}
MC_Scores == {[notes |-> N, extras |-> X, dur |-> d] : N \in NoteSets(Cands, IF Thorough THEN 3 ELSE 2), X \in Extras, d \in {0, 8, 12}}
=============================================================================
