CONSTANT Pieces <- MC_Pieces
CONSTANT Resolutions <- MC_Resolutions
INIT WInit
NEXT WNext
INVARIANT DeltaInv
INVARIANT NearestInv
INVARIANT IdentityAtLibRes
CHECK_DEADLOCK FALSE
