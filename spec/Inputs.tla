------------------------------- MODULE Inputs -------------------------------
(* Enumeration of small well-formed inputs, shared by the generators and the model checks. *)
EXTENDS Music

NoteCands(Chs, Ps, Starts, Durs, Vels) ==
    {[ch |-> c, p |-> p, s |-> s, e |-> s + d, v |-> v] : c \in Chs, p \in Ps, s \in Starts, d \in Durs, v \in Vels}

(* all sets of at most n <= 3 pairwise non-overlapping notes
(kSubset's Java override fails for base sets of more than ~60 elements, hence the explicit form) *)
SubsetsUpTo3(S, n) == {{}} \cup (IF n >= 1 THEN {{a} : a \in S} ELSE {})
                           \cup (IF n >= 2 THEN {{a, b} : a \in S, b \in S} ELSE {})
                           \cup (IF n >= 3 THEN {{a, b, c} : a \in S, b \in S, c \in S} ELSE {})
NoteSets(cands, n) == {N \in SubsetsUpTo3(cands, n) : NoOverlap(N)}

Rank(ty) == CASE ty = "int" -> 0 [] ty = "ks" -> 2 [] ty = "ts" -> 3 [] ty = "cc" -> 4 [] ty = "pc" -> 5
              [] ty = "off" -> 6 [] ty = "on" -> 7 [] OTHER -> 1
MsgLess(a, b) == \/ a.t < b.t
                 \/ (a.t = b.t /\ Rank(a.ty) < Rank(b.ty))
                 \/ (a.t = b.t /\ Rank(a.ty) = Rank(b.ty) /\ a.ch < b.ch)
                 \/ (a.t = b.t /\ Rank(a.ty) = Rank(b.ty) /\ a.ch = b.ch /\ a.p < b.p)
                 \/ (a.t = b.t /\ Rank(a.ty) = Rank(b.ty) /\ a.ch = b.ch /\ a.p = b.p /\ a.n < b.n)

(* canonical absolute view of a note set plus extra (non-note) absolute messages, capped at dur *)
AbsOfNotes(N, extras, dur) ==
    LET ms == UNION {{MOn(x.s, x.ch, x.p, x.v), MOff(x.e, x.ch, x.p)} : x \in N} \cup extras
        sorted == SortSeq(SetToSeq(ms), MsgLess)
        last == IF sorted = <<>> THEN 0 ELSE sorted[Len(sorted)].t
    IN IF dur > last THEN Append(sorted, MInt(dur, IF sorted = <<>> THEN 0 ELSE sorted[1].ch)) ELSE sorted
RelOfNotes(N, extras, dur) == AbsToRel(AbsOfNotes(N, extras, dur))
=============================================================================
