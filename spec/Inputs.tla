------------------------------- MODULE Inputs -------------------------------
(* Enumeration of small well-formed inputs, shared by the generators and the model checks. *)
EXTENDS Music

NoteCands(Chs, Ps, Starts, Durs, Vels) ==
    {[ch |-> c, p |-> p, s |-> s, e |-> s + d, v |-> v] : c \in Chs, p \in Ps, s \in Starts, d \in Durs, v \in Vels}

(* all sets of at most n pairwise non-overlapping notes *)
NoteSets(cands, n) == UNION {{N \in kSubset(k, cands) : NoOverlap(N)} : k \in 0 .. n}

Rank(ty) == CASE ty = "int" -> 0 [] ty = "ks" -> 2 [] ty = "ts" -> 3 [] ty = "cc" -> 4 [] ty = "pc" -> 5
              [] ty = "off" -> 6 [] ty = "on" -> 7 [] OTHER -> 1
MsgLess(a, b) == \/ a.t < b.t
                 \/ (a.t = b.t /\ Rank(a.ty) < Rank(b.ty))
                 \/ (a.t = b.t /\ Rank(a.ty) = Rank(b.ty) /\ a.ch < b.ch)
                 \/ (a.t = b.t /\ Rank(a.ty) = Rank(b.ty) /\ a.ch = b.ch /\ a.p < b.p)
                 \/ (a.t = b.t /\ Rank(a.ty) = Rank(b.ty) /\ a.ch = b.ch /\ a.p = b.p /\ a.n < b.n)

(* canonical absolute view of a note set plus extra (non-note) absolute messages, capped at dur *)
AbsOfNotes(N, extras, dur) ==
    LET ms == UNION {{MOn(x.s, x.ch, x.p, x.v), MOff(x.e, x.ch, x.p)} : x \in N} \cup extras
        sorted == SortSeq(SetToSeq(ms), MsgLess)
        last == IF sorted = <<>> THEN 0 ELSE sorted[Len(sorted)].t
    IN IF dur > last THEN Append(sorted, MInt(dur, IF sorted = <<>> THEN 0 ELSE sorted[1].ch)) ELSE sorted
RelOfNotes(N, extras, dur) == AbsToRel(AbsOfNotes(N, extras, dur))
=============================================================================
