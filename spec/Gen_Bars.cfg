CONSTANT MetaTracks <- MC_MetaTracks
CONSTANT Durations <- MC_Durations
INIT GenInit
NEXT GenNext
