CONSTANT Pieces <- MC_Pieces
CONSTANT Shifts <- MC_Shifts
INIT GenInit
NEXT GenNext
