CONSTANT Configs <- T_Empty
CONSTANT PiecesOf <- T_Pieces
CONSTANT Defect <- T_NoDefect
INIT TraceInit
NEXT TraceNext
POSTCONDITION TraceAccepted
CHECK_DEADLOCK FALSE
