CONSTANT Defect <- D_Unclosed
CONSTANT Alphabet <- MC_Alphabet
CONSTANT MaxLen <- MC_MaxLen
INIT NInit
NEXT NNext
INVARIANT ClockInv
INVARIANT OpenTableInv
INVARIANT MeetsAcceptor
CHECK_DEADLOCK FALSE
