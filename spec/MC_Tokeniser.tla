---------------------------- MODULE MC_Tokeniser ----------------------------
EXTENDS TokeniserSys, IOUtils
Thorough == "VERIF_TIER" \in DOMAIN IOEnv /\ IOEnv.VERIF_TIER = "thorough"
Which == IF "MC_WHICH" \in DOMAIN IOEnv THEN IOEnv.MC_WHICH ELSE "C01"
NoDefect == {}
AsBuilt == {"NoCloseWhenClockOnBarline"}

Cfg(run, ft, fv, fl, bins) == [ppqn |-> 24, tracks |-> 2, pitLo |-> 60, pitHi |-> 61, steps |-> {2, 3, 4, 6, 8, 12, 16, 24},
                               values |-> {6, 12, 24}, bins |-> bins, tsLo |-> 2, tsHi |-> 16,
                               running |-> run, fuseTrk |-> ft, fuseVal |-> fv, fuseVel |-> fl]
AllFlagCfgs(B) == {Cfg(r, a, b, c, bins) : r \in BOOLEAN, a \in BOOLEAN, b \in BOOLEAN, c \in BOOLEAN, bins \in B}
FewFlagCfgs(B) == {Cfg(TRUE, TRUE, TRUE, TRUE, bins) : bins \in B} \cup {Cfg(TRUE, FALSE, FALSE, FALSE, bins) : bins \in B}
                  \cup {Cfg(FALSE, FALSE, TRUE, FALSE, bins) : bins \in B}
MC_Configs == CASE Which = "C01" -> IF Thorough THEN AllFlagCfgs({<<127>>, <<96, 127>>, <<63, 105, 127>>})
                                    ELSE FewFlagCfgs({<<63, 105, 127>>}) \cup {Cfg(FALSE, TRUE, FALSE, TRUE, <<127>>)}
                [] Which = "C02" -> AllFlagCfgs(IF Thorough THEN {<<127>>, <<96, 127>>, <<63, 105, 127>>} ELSE {<<96, 127>>})
                [] Which = "C19" -> {Cfg(TRUE, TRUE, TRUE, TRUE, <<96, 127>>), Cfg(TRUE, FALSE, FALSE, FALSE, <<96, 127>>),
                                     [Cfg(TRUE, FALSE, TRUE, FALSE, <<96, 127>>) EXCEPT !.ppqn = 48]}
                [] OTHER -> IF Thorough THEN FewFlagCfgs({<<96, 127>>})
                            ELSE {Cfg(TRUE, FALSE, FALSE, FALSE, <<96, 127>>)}

(* 2/8 gives bars of 24 ticks, which a 24-tick note starting on the bar line fills exactly *)
SigPlans == {<<>>, <<<<0, 3, 4>>>>, <<<<0, 2, 4>>, <<48, 6, 8>>>>, <<<<96, 3, 4>>>>, <<<<0, 2, 8>>>>}
NoteCandsT == {[trk |-> t, p |-> pv[1], v |-> pv[2], s |-> s, e |-> s + l] :
                  t \in {0, 1}, pv \in {<<60, 40>>, <<61, 100>>}, s \in {0, 44, 72, 100}, l \in {6, 24}}
NoClash(N) == \A a, b \in N : (a # b /\ a.trk = b.trk /\ a.p = b.p) => (a.e <= b.s \/ b.e <= a.s)
NoteSetsT == {{}} \cup {{a} : a \in NoteCandsT} \cup {N \in {{a, b} : a \in NoteCandsT, b \in NoteCandsT} : NoClash(N)}
TracksOf(N) == [i \in 1 .. 2 |-> {[p |-> x.p, s |-> x.s, e |-> x.e, v |-> x.v] : x \in {y \in N : y.trk = i - 1}}]
LastEnd(N) == MaxS({0} \cup {x.e : x \in N})
(* three shapes: made of whole bars (padded), ending with the last note-off (no end mark), ending in a trailing rest *)
Shapes(c, N, sg) ==
    LET lines(upTo) == BarLines(c, sg, 0, upTo, <<>>)
        full == LET bl == lines(MaxS({1, LastEnd(N)})) IN bl[Len(bl)]
    IN {[tracks |-> TracksOf(N), sigs |-> sg, end |-> full, cap |-> TRUE, bars |-> TRUE]}
       \cup (IF N # {} THEN {[tracks |-> TracksOf(N), sigs |-> sg, end |-> LastEnd(N), cap |-> FALSE, bars |-> FALSE],
                             [tracks |-> TracksOf(N), sigs |-> sg, end |-> LastEnd(N) + 10, cap |-> TRUE, bars |-> FALSE]} ELSE {})
SigsFit(sg, e) == \A j \in DOMAIN sg : sg[j][1] < e
NoteSetsFor == IF Which = "C02" THEN {N \in NoteSetsT : Cardinality(N) <= 1} ELSE NoteSetsT
MC_PiecesOf(c) == LET all == UNION {UNION {Shapes(c, N, sg) : sg \in SigPlans} : N \in NoteSetsFor}
                  IN {pc \in all : SigsFit(pc.sigs, pc.end) /\ (Which = "C03" => pc.bars)}
(* C03 also needs pieces of three bars with a change in the middle *)
ThreeBar(c) == {[tracks |-> TracksOf(N), sigs |-> <<<<96, 3, 4>>, <<168, 4, 4>>>>, end |-> 264, cap |-> TRUE, bars |-> TRUE] :
                   N \in {M \in NoteSetsT : Cardinality(M) = 2}}
(* bar-by-bar calls work on bars: no note crosses a bar line (the bar splitter cuts such notes) *)
NoCrossing(c, pc) == LET bl == RangeOf(ExpectedBarLines(c, pc)) IN
                     \A i \in DOMAIN pc.tracks : \A x \in pc.tracks[i] : ~\E b \in bl : x.s < b /\ b < x.e
MC_PiecesC03(c) == {pc \in MC_PiecesOf(c) \cup ThreeBar(c) : NoCrossing(c, pc)}
(* C19: arbitrary streams over a reduced vocabulary (not only tokenise output) *)
Letters(c) == {Tok("rest", 6), Tok("rest", 24), Tok("bar", -1), Tok("tsg", 4), Tok("tsg", 6), Tok("pad", -1)}
              \cup (IF c.fuseTrk THEN {} ELSE {Tok("trk", 1)}) \cup (IF c.fuseVal THEN {} ELSE {Tok("val", 12)})
              \cup (IF c.fuseVel THEN {} ELSE {Tok("vel", 96)})
              \cup {NoteTok(IF c.fuseTrk THEN t ELSE -1, 60 + t, IF c.fuseVal THEN 6 ELSE -1, IF c.fuseVel THEN 127 ELSE -1) : t \in {0, 1}}
RECURSIVE StreamsUpTo(_, _)
StreamsUpTo(A, n) == IF n = 0 THEN {<<>>} ELSE LET S == StreamsUpTo(A, n - 1) IN S \cup {Append(q, a) : q \in S, a \in A}
StreamLen == 5
DummyPiece == [tracks |-> <<{}, {}>>, sigs |-> <<>>, end |-> 96, cap |-> TRUE, bars |-> TRUE]
InitC19 == /\ cfg \in MC_Configs
           /\ piece = DummyPiece /\ cuts = {-1} /\ nc = 0
           /\ toks \in StreamsUpTo(Letters(cfg), StreamLen)
           /\ phase = "consume" /\ ci = 1 /\ ei = 1 /\ evs = <<>> /\ carry = FreshCarry(cfg)
           /\ acc = [st |-> FreshCarry(cfg), out |-> <<>>, ok |-> TRUE] /\ ti = 1 /\ d = FreshD(cfg) /\ inf = FreshI(cfg)
InitC01 == Init /\ cuts = {-1}
InitC03 == Init /\ cuts # {-1}
=============================================================================
