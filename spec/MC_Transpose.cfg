CONSTANT Pieces <- MC_Pieces
CONSTANT Shifts <- MC_Shifts
INIT TInit0
NEXT TNext0
INVARIANT PitchesInRange
INVARIANT PitchClassShifted
INVARIANT FlagRight
INVARIANT MeetsAcceptor
INVARIANT WrapLaw
CHECK_DEADLOCK FALSE
