CONSTANT Bases <- MC_Bases
INIT GenInit
NEXT GenNext
