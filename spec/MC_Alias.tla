---- MODULE MC_Alias ----
EXTENDS Alias, TLC
NoDefect == {}
D_Split == {"SplitSharesCells"}
MC_MaxObjects == 3
MC_MaxOps == 6
====
