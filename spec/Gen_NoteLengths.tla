--------------------------- MODULE Gen_NoteLengths ---------------------------
(* Initial states of the reference system = Scores x ValueLists x BOOLEAN; the factors are written out. *)
EXTENDS MC_NoteLengths, Json, TLC
GenInit == /\ score = <<>> /\ values = <<>> /\ noExtend = FALSE /\ todo = {} /\ kept = {}
GenNext == UNCHANGED vars
ASSUME ndJsonSerialize(IOEnv.GEN_FILE, <<[scores |-> SetToSeq(MC_Scores), valuelists |-> SetToSeq(MC_ValueLists)]>>)
=============================================================================
