------------------------------ MODULE Gen_Merge ------------------------------
(* The initial states of the reference system (families of scores) are written out. *)
EXTENDS MC_Merge, Json, TLC
GenInit == family = <<>> /\ pending = {} /\ notes = {} /\ dur = 0
GenNext == UNCHANGED vars
ASSUME ndJsonSerialize(IOEnv.GEN_FILE, <<[scores |-> SetToSeq(Small)]>>)
=============================================================================
