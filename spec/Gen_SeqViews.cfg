CONSTANT Defect <- NoDefect
CONSTANT MaxVersion <- MC_MaxVersion
INIT GenInit
NEXT GenNext
