CONSTANT Intervals <- MC_Intervals
INIT TInit
NEXT TNext
INVARIANT Additive
INVARIANT NeverUndefined
INVARIANT ScaleFollows
INVARIANT EveryKeyMajor
INVARIANT CofLaws
PROPERTY IdentityOnOctaves
