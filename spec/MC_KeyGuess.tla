----------------------------- MODULE MC_KeyGuess -----------------------------
EXTENDS KeyGuess, IOUtils
Thorough == "VERIF_TIER" \in DOMAIN IOEnv /\ IOEnv.VERIF_TIER = "thorough"
(* pitch-class material: every set of up to 3 (thorough 4) of these note-ons, with optional signatures before / after a wait *)
Pcs == {60, 61, 62, 64, 66, 67, 70, 71}
RECURSIVE Lists(_)
Lists(n) == IF n = 0 THEN {<<>>} ELSE LET s == Lists(n - 1) IN s \cup {Append(l, MOn(-1, 0, p, 80)) : l \in s, p \in Pcs}
Heads == {<<>>, <<MKs(-1, 0, "Eb")>>, <<MWait(4, 0), MKs(-1, 0, "A")>>, <<MTs(-1, 0, 3, 4), MKs(-1, 0, "Cb")>>}
MC_Pieces == {h \o l : h \in Heads, l \in Lists(IF Thorough THEN 4 ELSE 3)}
=============================================================================
