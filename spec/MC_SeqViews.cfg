CONSTANT Defect <- NoDefect
CONSTANT MaxVersion <- MC_MaxVersion
INIT Init
NEXT Next
INVARIANT TypeOK
INVARIANT InvCoherent
INVARIANT InvReadable
INVARIANT InvVisible
INVARIANT InvIter
PROPERTY NoStaleRead
CHECK_DEADLOCK FALSE
