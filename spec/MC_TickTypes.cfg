CONSTANT MaxLen <- MC_MaxLen
CONSTANT Defect <- NoDefect
INIT Init
NEXT Next
INVARIANT IntOnly
CHECK_DEADLOCK FALSE
