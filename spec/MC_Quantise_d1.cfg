CONSTANT Defect <- D_Pitch
CONSTANT Scores <- MC_Scores
CONSTANT StepLists <- MC_StepLists
INIT QInit
NEXT QNext
INVARIANT MeetsAcceptor
INVARIANT OpenTableInv
INVARIANT GridInv
CHECK_DEADLOCK FALSE
