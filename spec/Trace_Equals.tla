----------------------------- MODULE Trace_Equals -----------------------------
EXTENDS Equals, TraceBase
T_Empty == {}
Verdict(r) == IF r.raised # "" THEN <<"raised">> ELSE IF ~InEqualsDomain(r) THEN <<>> ELSE Fails(EqualsClauses(r))
TraceInit == TraceStart /\ base = <<>> /\ other = <<>> /\ kind = "none"
TraceNext == HasLine /\ Advance /\ UNCHANGED vars
             /\ Emit([id |-> Line.id, fails |-> Verdict(Line),
                      anyDiffer |-> (Line.raised = "" /\ \E i \in DOMAIN Line.res : MustDiffer(Content(Line.a), Content(Line.b), FlagSet(Line.res[i].flags)))])
=============================================================================
