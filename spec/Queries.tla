------------------------------- MODULE Queries -------------------------------
(***************************************************************************)
(* Extension X04: the read-only queries of a Sequence, as functions of the  *)
(* abstract content (timed events + total duration) and of nothing else:    *)
(*   get_sequence_duration            = the total duration in ticks          *)
(*   get_sequence_duration_relation   = the same in quarter notes            *)
(*   is_empty                         <=> no note is struck                  *)
(*   is_channel_consistent            <=> all events share one channel       *)
(*   get_sequence_channel             = that channel / SequenceException     *)
(*   get_message_times_of_type(T)     = the events whose type is in T with   *)
(*                                      their ticks, in time order, as       *)
(*                                      read-only messages                   *)
(* None of them changes what either view shows.  For a sequence without any *)
(* message nothing is prescribed for the two queries that need a message to *)
(* look at (duration in ticks, channel).                                    *)
(***************************************************************************)
EXTENDS Inputs

Channels(rel) == {m.ch : m \in SeqRange(RelEvents(rel))}
OfTypes(rel, T) == SelectSeq(RelEvents(rel), LAMBDA m : m.ty \in T)
(* r: [rel, dur, durRaised, relDurTicks (duration_relation * ppqn, -1 when not integral), isEmpty, consistent, channel,
      channelRaised, types (set of type names), times (seq of [t, m]), readOnly, after (relative view afterwards),
      afterAbs (absolute view afterwards)] *)
QueryClauses(r) ==
    LET evs == RelEvents(r.rel)
        some == r.rel # <<>>
        one == Cardinality(Channels(r.rel)) <= 1
        want == OfTypes(r.rel, r.types)
    IN << <<"duration", some => (r.durRaised = "" /\ r.dur = RelDur(r.rel))>>,
          <<"duration-relation", r.relDurTicks = RelDur(r.rel)>>,
          <<"is-empty", r.isEmpty <=> (\A i \in DOMAIN r.rel : r.rel[i].ty # "on")>>,
          <<"channel-consistent", r.consistent <=> one>>,
          <<"channel", (some /\ one /\ evs # <<>>) => (r.channelRaised = "" /\ r.channel \in Channels(r.rel))>>,
          <<"channel-inconsistent-raises", ~one => r.channelRaised = "SequenceException">>,
          <<"times-are-the-events", BagOfSeq([i \in DOMAIN r.times |-> Ev(r.times[i].m)]) = BagOfSeq([i \in DOMAIN want |-> Ev(want[i])])>>,
          <<"times-match-messages", \A i \in DOMAIN r.times : r.times[i].t = r.times[i].m.t>>,
          <<"times-ordered", \A i \in 1 .. (Len(r.times) - 1) : r.times[i].t <= r.times[i + 1].t>>,
          <<"times-read-only", r.readOnly>>,
          <<"sequence-unchanged", r.after = r.rel /\ SameContent(r.afterAbs, r.rel)>> >>

(* ---- reference system: one scan over the relative view ---- *)
CONSTANTS Views, TypeSets
VARIABLES src, types, pos, clock, chans, struck, hits, phase
vars == <<src, types, pos, clock, chans, struck, hits, phase>>
QInit == /\ src \in Views /\ types \in TypeSets /\ pos = 1 /\ clock = 0 /\ chans = {} /\ struck = FALSE /\ hits = <<>> /\ phase = "scan"
ScanWait == /\ phase = "scan" /\ pos <= Len(src) /\ src[pos].ty = "wait"
            /\ clock' = clock + src[pos].t /\ pos' = pos + 1 /\ UNCHANGED <<src, types, chans, struck, hits, phase>>
ScanEvent == /\ phase = "scan" /\ pos <= Len(src) /\ src[pos].ty # "wait"
             /\ chans' = chans \cup {src[pos].ch}
             /\ struck' = (struck \/ src[pos].ty = "on")
             /\ hits' = (IF src[pos].ty \in types THEN Append(hits, [t |-> clock, m |-> [src[pos] EXCEPT !.t = clock]]) ELSE hits)
             /\ pos' = pos + 1 /\ UNCHANGED <<src, types, clock, phase>>
Answer == /\ phase = "scan" /\ pos > Len(src) /\ phase' = "done" /\ UNCHANGED <<src, types, pos, clock, chans, struck, hits>>
QNext == ScanWait \/ ScanEvent \/ Answer
Result == [rel |-> src, dur |-> clock, durRaised |-> "", relDurTicks |-> clock, isEmpty |-> ~struck,
           consistent |-> Cardinality(chans) <= 1, channel |-> (IF Cardinality(chans) = 1 THEN CHOOSE c \in chans : TRUE ELSE -1),
           channelRaised |-> (IF Cardinality(chans) > 1 THEN "SequenceException" ELSE ""), types |-> types, times |-> hits,
           readOnly |-> TRUE, after |-> src, afterAbs |-> RelToAbs(src)]
AllHoldQ(cl) == \A j \in DOMAIN cl : cl[j][2]
MeetsAcceptor == phase = "done" => AllHoldQ(QueryClauses(Result))
ScanRight == LET pre == SubSeq(src, 1, pos - 1)
             IN clock = RelDur(pre) /\ chans = Channels(pre) /\ Len(hits) = Len(OfTypes(pre, types))
=============================================================================
