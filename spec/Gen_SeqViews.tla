---------------------------- MODULE Gen_SeqViews ----------------------------
(* Writes the labelled state graph of the protocol over freshness states (content abstracted away):
   edges <<from, op, to>> for every public operation enabled in `from`, plus the scripts of the generator
   operations.  The harness walks this graph (all paths up to a bound, random paths beyond). *)
EXTENDS MC_SeqViews, Json, IOUtils, TLC, SequencesExt
Node(a, r) == [truth |-> 1, absHolds |-> IF a THEN 1 ELSE 0, relHolds |-> IF r THEN 1 ELSE 0,
               absFresh |-> a, relFresh |-> r, iter |-> "none"]
Nodes == {Node(TRUE, FALSE), Node(FALSE, TRUE), Node(TRUE, TRUE)}
Bits(st) == [a |-> st.absFresh, r |-> st.relFresh]
PublicOps == AllOps \cup {"iter_abs_read_edit_read", "iter_rel_read_edit_read"}
Script(op) == CASE op = "iter_abs_read_edit_read" ->
                     <<"iter_start_abs", "iter_readother", "iter_edit", "iter_readother", "iter_yield", "iter_close">>
                [] op = "iter_rel_read_edit_read" ->
                     <<"iter_start_rel", "iter_readother", "iter_edit", "iter_readother", "iter_yield", "iter_close">>
                [] op \in IterOps -> IterScript(op)
                [] OTHER -> <<>>
ApplyPublic(st, op) == IF Script(op) # <<>> THEN RunScript(st, Script(op), 2)
                       ELSE Apply(st, op, IF op \in Mutating THEN 2 ELSE 1)
Edges == UNION {{[from |-> Bits(n), op |-> op, to |-> Bits(ApplyPublic(n, op)),
                  legal |-> Readable(ApplyPublic(n, op))] : op \in {o \in PublicOps : Enabled(n, o)}} : n \in Nodes}
Scripts == {[op |-> op, script |-> Script(op)] : op \in {o \in PublicOps : Script(o) # <<>>}}
GenInit == s = Node(TRUE, TRUE) /\ last = "init"
GenNext == UNCHANGED vars
ASSUME ndJsonSerialize(IOEnv.GEN_FILE, <<[edges |-> SetToSeq(Edges), scripts |-> SetToSeq(Scripts),
                                          mutating |-> SetToSeq(Mutating)]>>)
=============================================================================
