CONSTANT Pieces <- T_Empty
INIT TraceInit
NEXT TraceNext
POSTCONDITION TraceAccepted
CHECK_DEADLOCK FALSE
