CONSTANT MaxLen <- MC_MaxLen
CONSTANT Defect <- D_Pad
INIT Init
NEXT Next
INVARIANT IntOnly
CHECK_DEADLOCK FALSE
