CONSTANT Pieces <- MC_Pieces
CONSTANT Resolutions <- MC_Resolutions
INIT GenInit
NEXT GenNext
