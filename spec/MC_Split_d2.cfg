CONSTANT Scores <- MC_Scores
CONSTANT CapLists <- MC_CapLists
CONSTANT Defect <- D_Queue
INIT SInit
NEXT SNext
INVARIANT MeetsAcceptor
INVARIANT CountdownInv
INVARIANT OpenTableInv
CHECK_DEADLOCK FALSE
