CONSTANT Configs <- MC_Configs
CONSTANT PiecesOf <- MC_PiecesOf
CONSTANT Defect <- NoDefect
INIT InitC19
NEXT Next
INVARIANT LockStep
CHECK_DEADLOCK FALSE
