CONSTANT Scores <- T_Empty
CONSTANT CapLists <- T_Empty
CONSTANT Defect <- T_Empty
INIT TraceInit
NEXT TraceNext
POSTCONDITION TraceAccepted
CHECK_DEADLOCK FALSE
