--------------------------- MODULE Trace_MidiCodec ---------------------------
EXTENDS MidiCodec, TraceBase
T_Empty == {}
Verdict(r) == IF r.raised # "" THEN <<"raised">>
              ELSE IF r.kind = "saveload" THEN (IF InSaveDomain(r) THEN Fails(SaveLoadClauses(r)) ELSE <<>>)
              ELSE Fails(LoadClauses(r))
Info(r) == IF r.raised # "" THEN "raised"
           ELSE IF r.kind = "saveload" THEN (IF InSaveDomain(r) THEN "judged" ELSE "out-of-domain")
           ELSE IF HasTie(r) THEN "tie" ELSE "judged"
TraceInit == TraceStart /\ rel = <<>> /\ res = 24 /\ pos = 1 /\ buf = 0 /\ file = <<>> /\ clock = 0 /\ out = <<>> /\ phase = "done"
TraceNext == HasLine /\ Advance /\ UNCHANGED vars /\ Emit([id |-> Line.id, fails |-> Verdict(Line), info |-> Info(Line)])
=============================================================================
