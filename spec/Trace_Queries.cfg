CONSTANT Views <- T_Empty
CONSTANT TypeSets <- T_Empty
INIT TraceInit
NEXT TraceNext
POSTCONDITION TraceAccepted
CHECK_DEADLOCK FALSE
