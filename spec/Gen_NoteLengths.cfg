CONSTANT Scores <- MC_Scores
CONSTANT ValueLists <- MC_ValueLists
INIT GenInit
NEXT GenNext
