---------------------------- MODULE TrackProgram ----------------------------
(***************************************************************************)
(* Extension X03: Track (a list of bars).  A track has one instrument: its   *)
(* program is the program of its program-change messages, which must all     *)
(* agree (TrackException otherwise) and is absent when there is none.        *)
(* Track.to_sequence lays the bars end to end: the durations add up and the  *)
(* sounding set is the union of the bars' sounding sets shifted to their     *)
(* starts.  A copy of a track is an equal, independent track.                *)
(***************************************************************************)
EXTENDS Inputs

Programs(bars) == {m.p : m \in UNION {{bars[i][j] : j \in {q \in DOMAIN bars[i] : bars[i][q].ty = "pc"}} : i \in DOMAIN bars}}
(* r: [bars (seq of relative views), raised, program (-1 = none), joined (relative view of to_sequence),
      copyProgram, copyJoined] *)
TrackClauses(r) ==
    LET ps == Programs(r.bars)
        starts == [i \in DOMAIN r.bars |-> SumSeq([q \in 1 .. (i - 1) |-> RelDur(r.bars[q])])]
        union == UNION {ShiftSound(Sounding(RelEvents(r.bars[i]), RelDur(r.bars[i])), starts[i]) : i \in DOMAIN r.bars}
        ok == r.raised = ""
    IN << <<"only-track-error", r.raised \in {"", "TrackException"}>>,
          <<"inconsistent-programs-rejected", Cardinality(ps) > 1 <=> r.raised = "TrackException">>,
          <<"program-is-the-common-one", (ok /\ Cardinality(ps) = 1) => r.program \in ps>>,
          <<"no-program-without-message", (ok /\ ps = {}) => r.program = -1>>,
          <<"joined-duration-adds-up", ok => RelDur(r.joined) = SumSeq([i \in DOMAIN r.bars |-> RelDur(r.bars[i])])>>,
          <<"joined-sound-is-union", ok => Sounding(RelEvents(r.joined), RelDur(r.joined)) = union>>,
          <<"copy-equal", ok => (r.copyProgram = r.program /\ EventBag(RelEvents(r.copyJoined)) = EventBag(RelEvents(r.joined))
                                 /\ RelDur(r.copyJoined) = RelDur(r.joined))>> >>

(* ---- reference system: scan the bars' program changes ---- *)
CONSTANTS BarLists
VARIABLES bars, pos, seen, verdict
vars == <<bars, pos, seen, verdict>>
TInit == bars \in BarLists /\ pos = 1 /\ seen = {} /\ verdict = "scanning"
ScanBar == /\ verdict = "scanning" /\ pos <= Len(bars)
           /\ seen' = seen \cup {m.p : m \in {bars[pos][j] : j \in {q \in DOMAIN bars[pos] : bars[pos][q].ty = "pc"}}}
           /\ pos' = pos + 1 /\ UNCHANGED <<bars, verdict>>
Decide == /\ verdict = "scanning" /\ pos > Len(bars)
          /\ verdict' = (IF Cardinality(seen) > 1 THEN "TrackException" ELSE "ok")
          /\ UNCHANGED <<bars, pos, seen>>
TNext == ScanBar \/ Decide
SeenRight == seen = Programs(SubSeq(bars, 1, pos - 1))
VerdictRight == verdict # "scanning" => (verdict = "TrackException" <=> Cardinality(Programs(bars)) > 1)
=============================================================================
