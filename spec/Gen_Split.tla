------------------------------ MODULE Gen_Split ------------------------------
(* Initial states of the reference system = Scores x CapLists; both factors are written out. *)
EXTENDS MC_Split, Json, TLC
GenInit == /\ src = <<>> /\ caps = <<>> /\ work = <<>> /\ ci = 1 /\ rem = 0 /\ cur = <<>> /\ queue = <<>>
           /\ openT = <<>> /\ pieces = <<>> /\ phase = "done"
GenNext == UNCHANGED vars
ASSUME ndJsonSerialize(IOEnv.GEN_FILE, <<[scores |-> SetToSeq(MC_Scores), caplists |-> SetToSeq(MC_CapLists)]>>)
=============================================================================
