CONSTANT BarLists <- MC_BarLists
INIT TInit
NEXT TNext
INVARIANT SeenRight
INVARIANT VerdictRight
CHECK_DEADLOCK FALSE
