----------------------------- MODULE Trace_TickLog -----------------------------
(***************************************************************************)
(* C11 on the repository's own test run (same log as Trace_SeqViewsLog):    *)
(* every outermost public call on a Sequence whose time values were all     *)
(* integers before the call, made with integer arguments, leaves only       *)
(* integer time values in the views it keeps current - the design rule of   *)
(* TickTypes.tla (an operation's output kinds are the join of its input     *)
(* kinds), per object.  `kinds` are the type names of all time values of    *)
(* the fresh views after the call (known = both fresh views were small      *)
(* enough to be read), `argKinds` those of the numeric arguments.           *)
(***************************************************************************)
EXTENDS TickTypes, TraceBase
VARIABLE seen          \* object -> kinds observed after its last judged line
T_Max == 1000000
T_Empty == {}
IntLike == {"int", "int64", "int32"}
TraceStep ==
    LET r == Line
        ks == SetOfSeq(r.kinds)
        args == SetOfSeq(r.argKinds)
        before == r.obj \in DOMAIN seen /\ ~r.new /\ ~r.gap
        intBefore == before /\ seen[r.obj] \subseteq IntLike
        judged == r.raised = "" /\ r.known /\ intBefore /\ args \subseteq IntLike
    IN /\ seen' = [o \in DOMAIN seen \cup {r.obj} |-> IF o = r.obj THEN (IF r.known THEN ks ELSE {"unknown"}) ELSE seen[o]]
       /\ UNCHANGED vars
       /\ Emit([id |-> r.id, fails |-> IF judged THEN Fails(<< <<"times-stay-integers", ks \subseteq IntLike>> >>) ELSE <<>>,
                judged |-> judged])
TraceInit == TraceStart /\ kinds = {"int"} /\ tokenKinds = {} /\ hist = <<>> /\ seen = <<>>
TraceNext == HasLine /\ Advance /\ TraceStep
=============================================================================
