------------------------------ MODULE Gen_Equals ------------------------------
(* Every behaviour of the reference system: (base, perturbed, kind), plus the unperturbed pair. *)
EXTENDS MC_Equals, Json, TLC
Pairs == UNION {{[base |-> b, other |-> r.other, kind |-> r.kind] : r \in Perturbed(b)} \cup {[base |-> b, other |-> b, kind |-> "none"]} : b \in MC_Bases}
GenInit == base = <<>> /\ other = <<>> /\ kind = "none"
GenNext == UNCHANGED vars
ASSUME ndJsonSerialize(IOEnv.GEN_FILE, SetToSeq(Pairs))
=============================================================================
