CONSTANT Pieces <- MC_Pieces
INIT GenInit
NEXT GenNext
CHECK_DEADLOCK FALSE
