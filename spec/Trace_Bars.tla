------------------------------ MODULE Trace_Bars ------------------------------
EXTENDS Bars, TraceBase
T_Empty == {}
Verdict(r) == IF r.kind = "ctor" THEN Fails(BarClauses(r))
              ELSE IF r.raised # "" THEN <<"raised">>
              ELSE IF ~InSplitDomain(r) THEN <<>>
              ELSE Fails(BarSplitClauses(r) \o
                         \* the Composition entry point yields the bars of the same steps done by hand (compA = compB = <<>> when not exercised)
                         << <<"composition-entry-agrees", r.compA = r.compB>> >>)
Info(r) == IF r.kind = "ctor" THEN (IF r.raised = "" THEN "accepted" ELSE "rejected")
           ELSE IF r.raised # "" THEN "raised" ELSE IF InSplitDomain(r) THEN "judged" ELSE "out-of-domain"
TraceInit == TraceStart /\ meta = <<>> /\ maxDur = 0 /\ t = 0 /\ grid = <<>>
TraceNext == HasLine /\ Advance /\ UNCHANGED vars /\ Emit([id |-> Line.id, fails |-> Verdict(Line), info |-> Info(Line)])
=============================================================================
