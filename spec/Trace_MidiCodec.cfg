CONSTANT Pieces <- T_Empty
CONSTANT Resolutions <- T_Empty
INIT TraceInit
NEXT TraceNext
POSTCONDITION TraceAccepted
CHECK_DEADLOCK FALSE
