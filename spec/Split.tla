-------------------------------- MODULE Split --------------------------------
(***************************************************************************)
(* C08: splitting a relative message list by a list of capacities.          *)
(* Reference system (capacity countdown):                                    *)
(*   work    messages still to be consumed                                   *)
(*   ci, rem index of the current capacity and what is left of it            *)
(*   cur     the piece being filled;  queue: messages deferred to the next   *)
(*   openT   velocity of the sounding note per key <<ch, p>> (-1 = none)     *)
(*   pieces  finished pieces                                                 *)
(* An event sitting exactly on a boundary belongs to the later piece (a      *)
(* note-off closes in the earlier one); notes sounding across a boundary are *)
(* closed there and struck again with the same velocity.                     *)
(***************************************************************************)
EXTENDS Inputs

(* ---- acceptor ---- *)
RECURSIVE Offsets(_, _)
Offsets(ps, i) == IF i = 1 THEN 0 ELSE Offsets(ps, i - 1) + RelDur(ps[i - 1])
Shifted(evs, by) == [j \in DOMAIN evs |-> [evs[j] EXCEPT !.t = @ + by]]
SplitClauses(src, caps, ps, srcAfter, absBefore, absAfter) ==
    LET se == RelEvents(src)
        d == RelDur(src)
        n == Len(ps)
        off(i) == Offsets(ps, i)
        pe(i) == RelEvents(ps[i])
        allSound == UNION {ShiftSound(Sounding(pe(i), RelDur(ps[i])), off(i)) : i \in 1 .. n}
        frags == UNION {{[y EXCEPT !.s = @ + off(i), !.e = @ + off(i)] : y \in Notes(pe(i))} : i \in 1 .. n}
        others == UNION {{<<i, j>> : j \in DOMAIN NonNote(pe(i))} : i \in 1 .. n}
        otherBag == BagOfSeq([q \in 1 .. Cardinality(others) |->
                        LET ij == CHOOSE x \in others : Cardinality({y \in others : y[1] < x[1] \/ (y[1] = x[1] /\ y[2] < x[2])}) = q - 1
                        IN Ev([NonNote(pe(ij[1]))[ij[2]] EXCEPT !.t = @ + off(ij[1])])])
    IN << <<"piece-count", n <= Len(caps) + 1>>,
          <<"exact-capacities", \A i \in 1 .. (n - 1) : i <= Len(caps) /\ RelDur(ps[i]) = caps[i]>>,
          <<"last-piece-fits", (n >= 1 /\ n <= Len(caps)) => RelDur(ps[n]) <= caps[n]>>,
          <<"durations-sum", (IF n = 0 THEN 0 ELSE off(n) + RelDur(ps[n])) = d>>,
          <<"no-note-left-sounding", \A i \in 1 .. n : Alternates(pe(i))>>,
          <<"sound-conserved", allSound = Sounding(se, d)>>,
          <<"restruck-same-velocity", \A y \in frags : \E x \in Notes(se) :
                                         x.ch = y.ch /\ x.p = y.p /\ x.v = y.v /\ x.s <= y.s /\ y.e <= x.e>>,
          <<"non-note-events-at-original-ticks", otherBag = NonNoteBag(se)>>,
          (* the relative view literally; the absolute view as timed events (the stored order of the events of one
             tick is not content: reading the relative view brings it into canonical order) *)
          <<"source-unchanged", srcAfter = src /\ BagOfSeq(absAfter) = BagOfSeq(absBefore)>> >>

(* ---- reference transition system ---- *)
CONSTANTS Scores, CapLists, Defect
VARIABLES src, caps, work, ci, rem, cur, queue, openT, pieces, phase
vars == <<src, caps, work, ci, rem, cur, queue, openT, pieces, phase>>
KeysSrc == KeysOf(src)
SInit == /\ \E sc \in Scores : src = RelOfNotes(sc.notes, sc.extras, sc.dur)
         /\ caps \in CapLists
         /\ work = src /\ ci = 1 /\ rem = 0 /\ cur = <<>> /\ queue = <<>> /\ pieces = <<>> /\ phase = "next"
         /\ openT = [k \in KeysOf(src) |-> -1]
StartCap == /\ phase = "next" /\ ci <= Len(caps)
            /\ rem' = caps[ci] /\ queue' = <<>> /\ phase' = "fill"
            /\ UNCHANGED <<src, caps, work, ci, cur, openT, pieces>>
Filling == phase = "fill" /\ work # <<>>
M == Head(work)
KeyM == IF "OpenKeyedByPitch" \in Defect THEN <<0, M.p>> ELSE <<M.ch, M.p>>
Pop == work' = Tail(work) /\ UNCHANGED <<src, caps, ci, pieces, phase>>
TakeOn == /\ Filling /\ M.ty = "on"
          /\ IF rem > 0 THEN /\ cur' = Append(cur, M) /\ openT' = [k \in DOMAIN openT \cup {KeyM} |-> IF k = KeyM THEN M.v ELSE openT[k]]
                              /\ UNCHANGED queue
             ELSE queue' = Append(queue, M) /\ UNCHANGED <<cur, openT>>
          /\ Pop /\ UNCHANGED rem
TakeOff == /\ Filling /\ M.ty = "off"
           /\ cur' = Append(cur, M) /\ openT' = [k \in DOMAIN openT \cup {KeyM} |-> IF k = KeyM THEN -1 ELSE openT[k]]
           /\ Pop /\ UNCHANGED <<rem, queue>>
TakeOther == /\ Filling /\ M.ty \notin {"on", "off", "wait"}
             /\ IF rem > 0 THEN cur' = Append(cur, M) /\ UNCHANGED queue
                ELSE queue' = Append(queue, M) /\ UNCHANGED cur
             /\ Pop /\ UNCHANGED <<rem, openT>>
TakeWaitWhole == /\ Filling /\ M.ty = "wait" /\ M.t <= rem
                 /\ cur' = Append(cur, M) /\ rem' = rem - M.t
                 /\ Pop /\ UNCHANGED <<queue, openT>>
(* the boundary falls inside (or at the start of) this wait *)
SoundingKeys == {k \in DOMAIN openT : openT[k] # -1}
KeySeqOf(S) == SetToSeq(S)
TakeWaitSplit ==
    /\ Filling /\ M.ty = "wait" /\ M.t > rem
    /\ LET ks == KeySeqOf(SoundingKeys)
           offs == [i \in DOMAIN ks |-> MOff(-1, ks[i][1], ks[i][2])]
           ons == [i \in DOMAIN ks |-> MOn(-1, ks[i][1], ks[i][2], openT[ks[i]])]
           filled == (IF rem > 0 THEN Append(cur, MWait(rem, M.ch)) ELSE cur) \o offs
           nextq == queue \o ons \o <<MWait(M.t - rem, M.ch)>>
       IN /\ pieces' = IF filled # <<>> THEN Append(pieces, filled) ELSE pieces
          /\ work' = nextq \o Tail(work)
    /\ cur' = <<>> /\ queue' = <<>> /\ ci' = ci + 1 /\ phase' = "next" /\ rem' = 0
    /\ UNCHANGED <<src, caps, openT>>
(* the input ends inside this capacity: events waiting on the boundary are not lost *)
Exhausted == /\ phase = "fill" /\ work = <<>>
             /\ pieces' = IF cur # <<>> THEN Append(pieces, cur) ELSE pieces
             /\ work' = IF "BoundaryQueueLostAtEnd" \in Defect THEN <<>> ELSE queue
             /\ cur' = <<>> /\ queue' = <<>> /\ ci' = ci + 1 /\ phase' = "next" /\ rem' = 0
             /\ UNCHANGED <<src, caps, openT>>
Finish == /\ phase = "next" /\ ci > Len(caps)
          /\ pieces' = IF cur \o work # <<>> THEN Append(pieces, cur \o work) ELSE pieces
          /\ phase' = "done" /\ work' = <<>> /\ cur' = <<>>
          /\ UNCHANGED <<src, caps, ci, rem, queue, openT>>
SNext == StartCap \/ TakeOn \/ TakeOff \/ TakeOther \/ TakeWaitWhole \/ TakeWaitSplit \/ Exhausted \/ Finish

AllHold(cl) == \A j \in DOMAIN cl : cl[j][2]
MeetsAcceptor == phase = "done" => AllHold(SplitClauses(src, caps, pieces, src, <<>>, <<>>))
(* consumed + remaining = capacity *)
CountdownInv == phase = "fill" => RelDur(cur) + rem = caps[ci]
(* the open table is exactly the set of notes sounding at the current position of the piece being filled
(once time has passed in the piece: notes struck again on the boundary are consumed before the first wait) *)
OpenTableInv == (phase = "fill" /\ Defect = {} /\ rem < caps[ci]) => \A k \in DOMAIN openT :
    LET mine == OfKey(RelEvents(cur), k) IN
    (openT[k] # -1) = (mine # <<>> /\ mine[Len(mine)].ty = "on")
=============================================================================
