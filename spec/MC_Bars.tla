------------------------------- MODULE MC_Bars -------------------------------
EXTENDS Bars
(* meta tracks: boundary-aligned signature and key plans (absolute events) *)
MC_MetaTracks == {<<>>,
                  <<MTs(0, 0, 3, 4)>>,
                  <<MTs(0, 0, 4, 4), MKs(0, 0, "D")>>,
                  <<MTs(0, 0, 3, 4), MTs(72, 0, 2, 4)>>,
                  <<MTs(0, 0, 2, 4), MKs(0, 0, "F"), MTs(48, 0, 6, 8), MKs(48, 0, "Eb")>>,
                  <<MTs(96, 0, 3, 4)>>,
                  <<MKs(96, 0, "A")>>,
                  <<MTs(0, 0, 4, 4), MTs(96, 0, 3, 4), MTs(168, 0, 4, 4), MKs(168, 0, "G")>>,
                  (* bars that are not a whole number of quarter notes *)
                  <<MTs(0, 0, 3, 8)>>,
                  <<MTs(0, 0, 4, 4), MTs(96, 0, 7, 8), MKs(96, 0, "Bb")>>,
                  <<MTs(0, 0, 5, 8), MTs(60, 0, 9, 8)>>,
                  <<MTs(0, 0, 5, 16)>>}
MC_Durations == {0, 1, 47, 48, 72, 95, 96, 97, 120, 168, 192, 200, 264}
=============================================================================
