------------------------------- MODULE Music -------------------------------
(***************************************************************************)
(* Shared vocabulary of the S-Coda specification: messages, the two views  *)
(* of a sequence (absolute / relative), the conversions between them, the  *)
(* piano roll (notes, sounding set), signatures in force, well-formedness. *)
(*                                                                         *)
(* A message is a record [ty, t, ch, p, v, n, d, k]; -1 / "" = absent.     *)
(*   ty \in {"on","off","wait","ts","ks","cc","pc","int"}                  *)
(*   absolute view: t = tick of the event ("int" = INTERNAL end-of-sequence*)
(*   cap); relative view: t = length for "wait", -1 otherwise.             *)
(***************************************************************************)
EXTENDS Integers, Sequences, FiniteSets, SequencesExt, FiniteSetsExt, Functions

Msg(ty, t, ch, p, v, n, d, k) == [ty |-> ty, t |-> t, ch |-> ch, p |-> p, v |-> v, n |-> n, d |-> d, k |-> k]
MOn(t, ch, p, v)  == Msg("on", t, ch, p, v, -1, -1, "")
MOff(t, ch, p)    == Msg("off", t, ch, p, -1, -1, -1, "")
MWait(n, ch)      == Msg("wait", n, ch, -1, -1, -1, -1, "")
MTs(t, ch, n, d)  == Msg("ts", t, ch, -1, -1, n, d, "")
MKs(t, ch, k)     == Msg("ks", t, ch, -1, -1, -1, -1, k)
MInt(t, ch)       == Msg("int", t, ch, -1, -1, -1, -1, "")

IsNote(m) == m.ty \in {"on", "off"}
Max2(a, b) == IF a >= b THEN a ELSE b
Min2(a, b) == IF a <= b THEN a ELSE b
AbsVal(x) == IF x < 0 THEN -x ELSE x
SeqRange(s) == {s[i] : i \in DOMAIN s}
SumSeq(s) == FoldLeft(LAMBDA a, x : a + x, 0, s)
MaxOf(S, dflt) == IF S = {} THEN dflt ELSE CHOOSE x \in S : \A y \in S : y <= x
MinOf(S, dflt) == IF S = {} THEN dflt ELSE CHOOSE x \in S : \A y \in S : x <= y

(* An event normalised for comparison: fields that carry no meaning for the type are blanked. *)
Ev(m) == CASE m.ty = "on"  -> [ty |-> "on", t |-> m.t, ch |-> m.ch, p |-> m.p, v |-> m.v, n |-> -1, d |-> -1, k |-> ""]
           [] m.ty = "off" -> [ty |-> "off", t |-> m.t, ch |-> m.ch, p |-> m.p, v |-> -1, n |-> -1, d |-> -1, k |-> ""]
           [] m.ty = "ts"  -> [ty |-> "ts", t |-> m.t, ch |-> -1, p |-> -1, v |-> -1, n |-> m.n, d |-> m.d, k |-> ""]
           [] m.ty = "ks"  -> [ty |-> "ks", t |-> m.t, ch |-> -1, p |-> -1, v |-> -1, n |-> -1, d |-> -1, k |-> m.k]
           [] OTHER        -> [ty |-> m.ty, t |-> m.t, ch |-> m.ch, p |-> m.p, v |-> m.v, n |-> -1, d |-> -1, k |-> ""]
(* Same, but keeping the channel of signatures (for set_channel). *)
EvCh(m) == [Ev(m) EXCEPT !.ch = m.ch]

---------------------------------------------------------------------------
(* The two views and their conversions (the reference for C04's conversion clause). *)

RelAcc(acc, m) == IF m.ty = "wait" THEN [acc EXCEPT !.c = @ + m.t]
                  ELSE [acc EXCEPT !.out = Append(@, [m EXCEPT !.t = acc.c])]
(* timed events described by a relative view, in view order *)
RelEvents(rel) == FoldLeft(RelAcc, [c |-> 0, out |-> <<>>], rel).out
RelDur(rel) == FoldLeft(LAMBDA a, m : IF m.ty = "wait" THEN a + m.t ELSE a, 0, rel)

(* timed events described by an absolute view, in view order; the INTERNAL cap is not an event *)
AbsEvents(abs) == SelectSeq(abs, LAMBDA m : m.ty # "int")
AbsDur(abs) == MaxOf({abs[i].t : i \in DOMAIN abs}, 0)

(* abs -> rel: waits between distinct ticks, the cap becomes a trailing wait *)
AbsToRelAcc(acc, m) ==
    LET w == IF m.t > acc.c THEN <<MWait(m.t - acc.c, m.ch)>> ELSE <<>>
        e == IF m.ty = "int" THEN <<>> ELSE <<[m EXCEPT !.t = -1]>>
    IN [c |-> Max2(acc.c, m.t), out |-> acc.out \o w \o e]
AbsToRel(abs) == FoldLeft(AbsToRelAcc, [c |-> 0, out |-> <<>>], abs).out

(* rel -> abs: running clock; a trailing wait is kept as an INTERNAL cap.  The order of events that
   share a tick is not prescribed, so the reference keeps the relative order. *)
RelToAbs(rel) ==
    LET evs == RelEvents(rel)
        dur == RelDur(rel)
        capped == evs # <<>> /\ evs[Len(evs)].t = dur
    IN IF capped \/ (evs = <<>> /\ dur = 0) THEN evs ELSE Append(evs, MInt(dur, 0))

(* multiset of normalised events *)
BagOfSeq(s) == LET R == SeqRange(s) IN [e \in R |-> Cardinality({i \in DOMAIN s : s[i] = e})]
EventBag(evs) == BagOfSeq([i \in DOMAIN evs |-> Ev(evs[i])])
(* the two views of one object describe the same content: same timed events, same duration *)
SameContent(abs, rel) == /\ BagOfSeq(AbsEvents(abs)) = BagOfSeq(RelEvents(rel))
                        /\ AbsDur(abs) = RelDur(rel)
EventBagCh(evs) == BagOfSeq([i \in DOMAIN evs |-> EvCh(evs[i])])
NonNote(evs) == SelectSeq(evs, LAMBDA m : ~IsNote(m))
NonNoteBag(evs) == EventBag(NonNote(evs))

TimeOrdered(evs) == \A i \in 1..(Len(evs) - 1) : evs[i].t <= evs[i + 1].t

---------------------------------------------------------------------------
(* Piano roll.  A key is <<channel, pitch>>. *)

KeysOf(evs) == {<<evs[i].ch, evs[i].p>> : i \in {j \in DOMAIN evs : IsNote(evs[j])}}
OfKey(evs, k) == SelectSeq(evs, LAMBDA m : IsNote(m) /\ m.ch = k[1] /\ m.p = k[2])

(* nesting-count semantics: defined for ill-formed input as well *)
SoundAcc(a, m) ==
    IF m.ty = "on"
    THEN IF a.cnt = 0 THEN [a EXCEPT !.cnt = 1, !.since = m.t] ELSE [a EXCEPT !.cnt = @ + 1]
    ELSE IF a.cnt = 0 THEN a
         ELSE IF a.cnt = 1 THEN [cnt |-> 0, since |-> -1, ticks |-> a.ticks \cup (a.since .. (m.t - 1))]
         ELSE [a EXCEPT !.cnt = @ - 1]
SoundKey(evs, k, dur) ==
    LET a == FoldLeft(SoundAcc, [cnt |-> 0, since |-> -1, ticks |-> {}], OfKey(evs, k))
    IN IF a.cnt > 0 THEN a.ticks \cup (a.since .. (dur - 1)) ELSE a.ticks
Sounding(evs, dur) == UNION {{<<k[1], k[2], t>> : t \in SoundKey(evs, k, dur)} : k \in KeysOf(evs)}
(* the same automaton collecting maximal sounding intervals <<start, end>> instead of ticks (unclosed notes end at dur) *)
IntervalAcc(a, m) ==
    IF m.ty = "on"
    THEN IF a.cnt = 0 THEN [a EXCEPT !.cnt = 1, !.since = m.t] ELSE [a EXCEPT !.cnt = @ + 1]
    ELSE IF a.cnt = 0 THEN a
         ELSE IF a.cnt = 1 THEN [cnt |-> 0, since |-> -1, ivs |-> a.ivs \cup {<<a.since, m.t>>}]
         ELSE [a EXCEPT !.cnt = @ - 1]
IntervalsKey(evs, k, dur) ==
    LET a == FoldLeft(IntervalAcc, [cnt |-> 0, since |-> -1, ivs |-> {}], OfKey(evs, k))
    IN IF a.cnt > 0 THEN a.ivs \cup {<<a.since, dur>>} ELSE a.ivs
(* only the closed intervals: a note-on that is never closed (and everything nested in it) sounds nowhere, which is how
   the library reads an ill-formed track (normalise drops what is never closed) *)
ClosedIntervalsKey(evs, k) == FoldLeft(IntervalAcc, [cnt |-> 0, since |-> -1, ivs |-> {}], OfKey(evs, k)).ivs
ShiftSound(S, by) == {<<x[1], x[2], x[3] + by>> : x \in S}

(* nesting never negative and zero at the end *)
PairedAcc(a, m) == IF m.ty = "on" THEN [a EXCEPT !.cnt = @ + 1]
                   ELSE IF a.cnt = 0 THEN [a EXCEPT !.bad = TRUE] ELSE [a EXCEPT !.cnt = @ - 1]
PairedKey(evs, k) == LET a == FoldLeft(PairedAcc, [cnt |-> 0, bad |-> FALSE], OfKey(evs, k))
                     IN ~a.bad /\ a.cnt = 0
Paired(evs) == \A k \in KeysOf(evs) : PairedKey(evs, k)

(* strict alternation on, off, on, off ... per key, ending closed *)
AltAcc(a, m) == IF m.ty = "on"
                THEN IF a.open THEN [a EXCEPT !.bad = TRUE]
                     ELSE [a EXCEPT !.open = TRUE, !.s = m.t, !.v = m.v]
                ELSE IF ~a.open THEN [a EXCEPT !.bad = TRUE]
                     ELSE [a EXCEPT !.open = FALSE,
                                    !.notes = @ \cup {[ch |-> m.ch, p |-> m.p, s |-> a.s, e |-> m.t, v |-> a.v]}]
AltKey(evs, k) == FoldLeft(AltAcc, [open |-> FALSE, bad |-> FALSE, s |-> -1, v |-> -1, notes |-> {}], OfKey(evs, k))
Alternates(evs) == \A k \in KeysOf(evs) : LET a == AltKey(evs, k) IN ~a.bad /\ ~a.open
(* notes of a view whose keys alternate; partial information otherwise *)
Notes(evs) == UNION {AltKey(evs, k).notes : k \in KeysOf(evs)}
(* the number of notes as a multiset-safe count (two identical notes cannot exist when alternating) *)
NoOverlap(N) == \A a, b \in N : (a # b /\ a.ch = b.ch /\ a.p = b.p) => (a.e <= b.s \/ b.e <= a.s)
WellFormed(evs) == /\ TimeOrdered(evs)
                   /\ Alternates(evs)
                   /\ \A x \in Notes(evs) : x.e > x.s
NoteKeyOnly(x) == [p |-> x.p, s |-> x.s, e |-> x.e]      \* (pitch, onset, end)
NoteNoVel(x) == [ch |-> x.ch, p |-> x.p, s |-> x.s, e |-> x.e]

---------------------------------------------------------------------------
(* Signatures *)

SigsOf(evs, kind) == SelectSeq(evs, LAMBDA m : m.ty = kind)
SigVal(m) == IF m.ty = "ts" THEN <<m.n, m.d>> ELSE <<m.k>>
(* value in force at `tick`: the last signature event (in view order) with t <= tick, else dflt *)
InForce(evs, kind, tick, dflt) ==
    LET s == SelectSeq(evs, LAMBDA m : m.ty = kind /\ m.t <= tick)
    IN IF s = <<>> THEN dflt ELSE SigVal(s[Len(s)])
(* ticks at which the value in force can change *)
SigTicks(evs, kind) == {evs[i].t : i \in {j \in DOMAIN evs : evs[j].ty = kind}}

BarLen(n, d, ppqn) == (n * 4 * ppqn) \div d
=============================================================================
