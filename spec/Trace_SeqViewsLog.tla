-------------------------- MODULE Trace_SeqViewsLog --------------------------
(***************************************************************************)
(* Validates the log of every outermost public call made on every Sequence  *)
(* object while the repository's OWN test suite runs (harness/recorder.py   *)
(* wraps the class; no source hooks) against the coherence protocol of      *)
(* SeqViews.tla.  One line per call:                                        *)
(*   obj, op (abstract operation realised), new (first sight), gap (calls   *)
(*   on this object were skipped since its last line), b0/b1 = (absFresh,   *)
(*   relFresh) before/after, ca/cr = identity of the content each view      *)
(*   denotes after the call (>= 1; -1 stale, -2 unreadable, -4 too large to *)
(*   digest), ca0/cr0 the same before the call (first sight only), raised.  *)
(* The state of every object seen so far is carried in `objs`; the logged   *)
(* pre-bits are authoritative (a difference to the carried bits is reported *)
(* as `drift`, it is not a verdict).                                        *)
(***************************************************************************)
EXTENDS SeqViews, TraceBase

VARIABLE objs
T_NoDefect == {}
T_Max == 1000000
Unknown == 0

Cid(ca, cr) == IF ca >= 1 THEN ca ELSE IF cr >= 1 THEN cr ELSE Unknown
Mk(b, ca, cr, it, keep) ==
    [truth |-> IF Cid(ca, cr) # Unknown THEN Cid(ca, cr) ELSE keep,
     absHolds |-> IF ca >= 1 THEN ca ELSE Nothing, relHolds |-> IF cr >= 1 THEN cr ELSE Nothing,
     absFresh |-> b[1], relFresh |-> b[2], iter |-> it]

TraceStep ==
    LET r == Line
        known == r.obj \in DOMAIN objs /\ ~r.new /\ ~r.gap
        prev == IF known THEN objs[r.obj] ELSE Mk(r.b0, r.ca0, r.cr0, "none", Unknown)
        st0 == [prev EXCEPT !.absFresh = r.b0[1], !.relFresh = r.b0[2]]
        drift == known /\ (prev.absFresh # r.b0[1] \/ prev.relFresh # r.b0[2])
        fine == r.op \in FineOps
        starts == r.op \in {"iter_start_abs", "iter_start_rel"}
        c == Cid(r.ca, r.cr)
        legal == /\ r.raised = "" /\ CanRead(st0)
                 /\ IF fine THEN (IF starts THEN st0.iter = "none" ELSE st0.iter # "none") ELSE Enabled(st0, r.op)
        st1 == IF fine THEN ApplyFine(st0, r.op, c) ELSE Apply(st0, r.op, c)
        mut == r.op \in Mutating
        clauses == << <<"protocol.abs-bit", st1.absFresh = r.b1[1]>>,
                      <<"protocol.rel-bit", st1.relFresh = r.b1[2]>>,
                      <<"readable", r.b1[1] \/ r.b1[2]>>,
                      <<"views-agree", (r.b1[1] /\ r.b1[2] /\ r.ca >= 1 /\ r.cr >= 1) => r.ca = r.cr>>,
                      <<"read-keeps-content", (~mut /\ known /\ prev.truth # Unknown /\ c # Unknown) => c = prev.truth>> >>
        it1 == IF r.op = "iter_start_abs" THEN "abs" ELSE IF r.op = "iter_start_rel" THEN "rel"
               ELSE IF r.op = "iter_close" THEN "none" ELSE st0.iter
        post == Mk(r.b1, r.ca, r.cr, it1, IF mut THEN Unknown ELSE prev.truth)
    IN /\ objs' = [o \in DOMAIN objs \cup {r.obj} |-> IF o = r.obj THEN post ELSE objs[o]]
       /\ UNCHANGED <<s, last>>
       /\ Emit([id |-> r.id, fails |-> IF legal THEN Fails(clauses) ELSE <<>>, illegal |-> ~legal, drift |-> drift,
                judgedContent |-> legal /\ ((r.b1[1] /\ r.b1[2] /\ r.ca >= 1 /\ r.cr >= 1)
                                            \/ (~mut /\ known /\ prev.truth # Unknown /\ c # Unknown))])

TraceInit == TraceStart /\ last = "init" /\ objs = <<>>
             /\ s = [truth |-> 0, absHolds |-> Nothing, relHolds |-> Nothing, absFresh |-> TRUE, relFresh |-> TRUE, iter |-> "none"]
TraceNext == HasLine /\ Advance /\ TraceStep
=============================================================================
