---------------------------- MODULE MC_MidiCodec ----------------------------
EXTENDS MidiCodec, IOUtils
Thorough == "VERIF_TIER" \in DOMAIN IOEnv /\ IOEnv.VERIF_TIER = "thorough"
Cands == NoteCands({0}, {60, 64}, {0, 1, 3, 7}, {1, 2, 5}, IF Thorough THEN {1, 127} ELSE {100})
Extras == {{}, {MTs(0, 0, 3, 4)}, {MTs(2, 0, 6, 8), MKs(0, 0, "F#")}, {Msg("pc", 0, 0, 5, -1, -1, -1, ""), Msg("pc", 4, 0, 7, -1, -1, -1, ""), MKs(4, 0, "Cb")},
           {Msg("cc", 3, 0, 64, 100, -1, -1, "")}}
MC_Scores == {[notes |-> N, extras |-> X, dur |-> d] : N \in NoteSets(Cands, 2), X \in Extras, d \in {0, 12}}
MC_Pieces == {RelOfNotes(sc.notes, sc.extras, sc.dur) : sc \in MC_Scores}
MC_Resolutions == {24, 48, 96, 120, 7, 25, 100, 5}
ASSUME RoundingLaw(MC_Resolutions)
=============================================================================
