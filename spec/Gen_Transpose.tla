---------------------------- MODULE Gen_Transpose ----------------------------
(* The initial states of the reference system are Pieces x Shifts; both factors are written out. *)
EXTENDS MC_Transpose, Json, TLC
GenInit == src = <<>> /\ by = 0 /\ pos = 1 /\ out = <<>> /\ moved = FALSE
GenNext == UNCHANGED vars
ASSUME ndJsonSerialize(IOEnv.GEN_FILE, <<[scores |-> SetToSeq(MC_Scores), shifts |-> SetToSeq(MC_Shifts)]>>)
=============================================================================
