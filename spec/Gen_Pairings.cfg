CONSTANT Inputs <- MC_Inputs
CONSTANT Lengths <- MC_Lengths
INIT GenInit
NEXT GenNext
CHECK_DEADLOCK FALSE
