---------------------------- MODULE Gen_MidiCodec ----------------------------
(* Initial states of the writer/reader system = Pieces x Resolutions; the scores behind the pieces and the resolutions
   are written out (the harness also uses the pieces as delta patterns of files written at each resolution). *)
EXTENDS MC_MidiCodec, Json, TLC
GenInit == rel = <<>> /\ res = 24 /\ pos = 1 /\ buf = 0 /\ file = <<>> /\ clock = 0 /\ out = <<>> /\ phase = "done"
GenNext == UNCHANGED vars
ASSUME ndJsonSerialize(IOEnv.GEN_FILE, <<[scores |-> SetToSeq(MC_Scores), resolutions |-> SetToSeq(MC_Resolutions)]>>)
=============================================================================
