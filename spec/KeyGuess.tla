------------------------------ MODULE KeyGuess ------------------------------
(***************************************************************************)
(* Extension X02: RelativeSequence.get_key_signature_guess.                 *)
(* A key signature standing before the first wait IS the key.  Otherwise    *)
(* the guess minimises, lexicographically, (number of note-ons whose pitch  *)
(* class lies outside the key's major scale, number of accidentals of the   *)
(* key).  Which minimiser is returned on a full tie is not prescribed.      *)
(***************************************************************************)
EXTENDS Inputs, TheoryDefs

Accidentals(k) == CASE k = "C" -> 0 [] k \in {"G", "F"} -> 1 [] k \in {"D", "Bb"} -> 2 [] k \in {"A", "Eb"} -> 3
                    [] k \in {"E", "Ab"} -> 4 [] k \in {"B", "Db"} -> 5 [] k \in {"F#", "Gb"} -> 6 [] k \in {"C#", "Cb"} -> 7
Ons(rel) == SelectSeq(rel, LAMBDA m : m.ty = "on")
Misses(k, rel) == Cardinality({j \in DOMAIN Ons(rel) : (Ons(rel)[j].p % 12) \notin ScaleOf(k)})
Better(a, b, rel) == Misses(a, rel) < Misses(b, rel) \/ (Misses(a, rel) = Misses(b, rel) /\ Accidentals(a) <= Accidentals(b))
(* the first key signature that stands before any wait, "" if none *)
LeadingAcc(a, m) == IF a.stop THEN a ELSE IF m.ty = "wait" THEN [a EXCEPT !.stop = TRUE]
                    ELSE IF m.ty = "ks" THEN [key |-> m.k, stop |-> TRUE] ELSE a
LeadingKey(rel) == FoldLeft(LeadingAcc, [key |-> "", stop |-> FALSE], rel).key
GuessClauses(rel, g) ==
    << <<"is-a-key", g \in Keys>>,
       <<"leading-signature-wins", LeadingKey(rel) # "" => g = LeadingKey(rel)>>,
       <<"minimal-misses-then-accidentals", (LeadingKey(rel) = "" /\ g \in Keys) => \A k \in Keys : Better(g, k, rel)>> >>

(* ---- reference system: scan, count, decide ---- *)
CONSTANTS Pieces
VARIABLES src, pos, lead, sawWait, misses, guess, phase
vars == <<src, pos, lead, sawWait, misses, guess, phase>>
KInit == /\ src \in Pieces /\ pos = 1 /\ lead = "" /\ sawWait = FALSE /\ misses = [k \in Keys |-> 0] /\ guess = "" /\ phase = "scan"
ScanKs == /\ phase = "scan" /\ pos <= Len(src) /\ src[pos].ty = "ks"
          /\ lead' = (IF lead = "" /\ ~sawWait THEN src[pos].k ELSE lead)
          /\ pos' = pos + 1 /\ UNCHANGED <<src, sawWait, misses, guess, phase>>
ScanWait == /\ phase = "scan" /\ pos <= Len(src) /\ src[pos].ty = "wait"
            /\ sawWait' = TRUE /\ pos' = pos + 1 /\ UNCHANGED <<src, lead, misses, guess, phase>>
ScanOn == /\ phase = "scan" /\ pos <= Len(src) /\ src[pos].ty = "on"
          /\ misses' = [k \in Keys |-> misses[k] + (IF (src[pos].p % 12) \in ScaleOf(k) THEN 0 ELSE 1)]
          /\ pos' = pos + 1 /\ UNCHANGED <<src, lead, sawWait, guess, phase>>
ScanOther == /\ phase = "scan" /\ pos <= Len(src) /\ src[pos].ty \notin {"ks", "wait", "on"}
             /\ pos' = pos + 1 /\ UNCHANGED <<src, lead, sawWait, misses, guess, phase>>
Decide == /\ phase = "scan" /\ pos > Len(src)
          /\ guess' \in (IF lead # "" THEN {lead}
                         ELSE {g \in Keys : \A k \in Keys : misses[g] < misses[k] \/ (misses[g] = misses[k] /\ Accidentals(g) <= Accidentals(k))})
          /\ phase' = "done" /\ UNCHANGED <<src, pos, lead, sawWait, misses>>
KNext == ScanKs \/ ScanWait \/ ScanOn \/ ScanOther \/ Decide
AllHoldK(cl) == \A j \in DOMAIN cl : cl[j][2]
MeetsAcceptor == phase = "done" => AllHoldK(GuessClauses(src, guess))
CountsRight == \A k \in Keys : misses[k] = Misses(k, SubSeq(src, 1, pos - 1))
(* C has no accidentals, so an empty piece is guessed as C *)
EmptyIsC == (phase = "done" /\ Ons(src) = <<>> /\ lead = "") => guess = "C"
=============================================================================
