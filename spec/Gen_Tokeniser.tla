---------------------------- MODULE Gen_Tokeniser ----------------------------
(* Writes the factors of the initial-state spaces of TokeniserSys for the property named in MC_WHICH:
   configurations, pieces (C01: every shape; C03: whole-bar pieces without crossing notes), the complete abstract
   vocabulary of every configuration (C02 witnesses), and the letters / length of the arbitrary streams (C19). *)
EXTENDS MC_Tokeniser, Json, TLC
AnyCfg == CHOOSE c \in MC_Configs : TRUE
JCfg(c) == [ppqn |-> c.ppqn, tracks |-> c.tracks, pitLo |-> c.pitLo, pitHi |-> c.pitHi, steps |-> SetToSeq(c.steps),
            values |-> SetToSeq(c.values), bins |-> c.bins, tsLo |-> c.tsLo, tsHi |-> c.tsHi, running |-> c.running,
            fuseTrk |-> c.fuseTrk, fuseVal |-> c.fuseVal, fuseVel |-> c.fuseVel]
JPiece(p) == [tracks |-> [i \in DOMAIN p.tracks |-> SetToSeq(p.tracks[i])], sigs |-> p.sigs, end |-> p.end, cap |-> p.cap, bars |-> p.bars]
CfgSeq == SetToSeq(MC_Configs)
Payload ==
    [configs |-> [i \in DOMAIN CfgSeq |-> JCfg(CfgSeq[i])],
     pieces |-> LET P == SetToSeq(IF Which = "C03" THEN MC_PiecesC03(AnyCfg) ELSE MC_PiecesOf(AnyCfg)) IN [i \in DOMAIN P |-> JPiece(P[i])],
     vocab |-> IF Which = "C02" THEN [i \in DOMAIN CfgSeq |-> SetToSeq(Vocab(CfgSeq[i]))] ELSE <<>>,
     letters |-> IF Which = "C19" THEN [i \in DOMAIN CfgSeq |-> SetToSeq(Letters(CfgSeq[i]))] ELSE <<>>,
     streamLen |-> StreamLen]
GenInit == /\ cfg = <<>> /\ piece = <<>> /\ cuts = {} /\ nc = 0 /\ phase = "done" /\ ci = 1 /\ ei = 1 /\ evs = <<>>
           /\ carry = <<>> /\ acc = <<>> /\ toks = <<>> /\ ti = 1 /\ d = <<>> /\ inf = <<>>
GenNext == UNCHANGED vars
ASSUME ndJsonSerialize(IOEnv.GEN_FILE, <<Payload>>)
=============================================================================
