------------------------------ MODULE MidiCodec ------------------------------
(***************************************************************************)
(* C12 / C13.  Writing sequences to a MIDI file and reading a file back.     *)
(*                                                                           *)
(* Writer reference system: the relative view is walked; waits accumulate in *)
(* `buf`, the next message that writes a file event takes `buf` as its delta *)
(* time.  Reader reference system: file events are walked with the exact     *)
(* position fileTick * LibRes / fileRes; each event is placed on the nearest *)
(* tick (no accumulation of rounding error).                                 *)
(***************************************************************************)
EXTENDS Inputs

LibRes == 24
(* ticks o that are nearest to the exact position T * LibRes / res (two when the position is exactly half way) *)
IsNearest(o, T, res) == 2 * AbsVal(o * res - T * LibRes) <= res
ExactTie(T, res) == (2 * T * LibRes) % res = 0 /\ ((2 * T * LibRes) \div res) % 2 = 1
RoundHalfEven(T, res) == LET q == (T * LibRes) \div res
                             r2 == 2 * ((T * LibRes) % res)
                         IN IF r2 < res THEN q ELSE IF r2 > res THEN q + 1 ELSE IF q % 2 = 0 THEN q ELSE q + 1

Writes(m) == m.ty \in {"on", "off", "ts", "ks", "cc"}

(* ---------------------------------------------------------------- C12 *)
NoteCore(x) == [p |-> x.p, s |-> x.s, e |-> x.e, v |-> x.v]
AllSigs(views, kind) ==
    LET all == UNION {{[m |-> m, i |-> i] : m \in {x \in SeqRange(RelEvents(views[i])) : x.ty = kind}} : i \in DOMAIN views}
    IN SortSeq(SetToSeq(all), LAMBDA a, b : a.m.t < b.m.t \/ (a.m.t = b.m.t /\ a.i < b.i))
InForceAll(views, kind, t, dflt) ==
    LET s == SelectSeq(AllSigs(views, kind), LAMBDA x : x.m.t <= t) IN IF s = <<>> THEN dflt ELSE SigVal(s[Len(s)].m)
SigTicksAll(views, kind) == UNION {SigTicks(RelEvents(views[i]), kind) : i \in DOMAIN views}
DistinctSigTicks(views, kind) ==
    \A i, j \in DOMAIN views : \A a \in SeqRange(RelEvents(views[i])), b \in SeqRange(RelEvents(views[j])) :
        (a.ty = kind /\ b.ty = kind /\ a.t = b.t /\ (i # j \/ a # b)) => SigVal(a) = SigVal(b)
(* r: [saved (seq of rel views), loaded (seq of abs views), target (0-based index of the designated meta sequence), raised] *)
SaveLoadClauses(r) ==
    LET n == Len(r.saved)
        le(i) == AbsEvents(r.loaded[i])
        tg == IF r.target + 1 \in DOMAIN r.loaded THEN r.target + 1 ELSE 1
        ticks == {0} \cup SigTicksAll(r.saved, "ts") \cup SigTicksAll(r.saved, "ks")
                 \cup SigTicks(le(tg), "ts") \cup SigTicks(le(tg), "ks")
    IN << <<"one-sequence-per-saved", Len(r.loaded) = n>>,
          <<"notes-identical", Len(r.loaded) = n => \A i \in 1 .. n :
                 {NoteCore(x) : x \in Notes(le(i))} = {NoteCore(x) : x \in Notes(RelEvents(r.saved[i]))}>>,
          <<"loaded-well-formed", \A i \in DOMAIN r.loaded : Alternates(le(i))>>,
          <<"loaded-views-agree", \A i \in DOMAIN r.loaded : SameContent(r.loaded[i], r.loadedRel[i])>>,
          <<"time-signature-in-force", Len(r.loaded) >= 1 => \A t \in ticks :
                 InForce(le(tg), "ts", t, <<4, 4>>) = InForceAll(r.saved, "ts", t, <<4, 4>>)>>,
          <<"key-signature-in-force", Len(r.loaded) >= 1 => \A t \in ticks :
                 InForce(le(tg), "ks", t, <<"">>) = InForceAll(r.saved, "ks", t, <<"">>)>>,
          <<"time-signature-from-tick-0", Len(r.loaded) >= 1 => InForce(le(tg), "ts", 0, <<>>) # <<>>>>,
          <<"signatures-only-on-meta-sequence", \A i \in DOMAIN r.loaded : i # tg => (SigsOf(le(i), "ts") = <<>> /\ SigsOf(le(i), "ks") = <<>>)>> >>
InSaveDomain(r) == /\ \A i \in DOMAIN r.saved : LET e == RelEvents(r.saved[i]) IN
                        /\ WellFormed(e) /\ NoOverlap({[x EXCEPT !.ch = 0] : x \in Notes(e)})
                        /\ Cardinality({[x EXCEPT !.ch = 0] : x \in Notes(e)}) = Cardinality(Notes(e))
                        /\ \A x \in Notes(e) : x.v \in 1 .. 127
                   /\ DistinctSigTicks(r.saved, "ts") /\ DistinctSigTicks(r.saved, "ks")

(* ---------------------------------------------------------------- C13 *)
(* r: [res, file (seq of tracks; a track = seq of events with t = cumulative file tick), groups (seq of seq of
      0-based track indices), metaIdx (seq), target (0-based), loaded (seq of abs views), raised] *)
InAnyGroup(r, i) == \E g \in DOMAIN r.groups : i \in SeqRange(r.groups[g])
Considered(r, i) == InAnyGroup(r, i) \/ i \in SeqRange(r.metaIdx)
Rounded(track, res) == [j \in DOMAIN track |-> [track[j] EXCEPT !.t = RoundHalfEven(@, res)]]
TrackNotes(track) == SelectSeq(track, LAMBDA m : IsNote(m))
HasTie(r) == \E i \in DOMAIN r.file : Considered(r, i - 1) /\ \E j \in DOMAIN r.file[i] :
                 r.file[i][j].ty \in {"on", "off", "ts", "ks"} /\ ExactTie(r.file[i][j].t, r.res)
(* notes are paired in the file (exact ticks), then both ends are rounded: a note whose ends round to the same tick
   contributes nothing *)
TrackSound(track, res) ==
    LET nt == TrackNotes(track)
    IN UNION {UNION {{<<k[1], k[2], t>> : t \in RoundHalfEven(iv[1], res) .. (RoundHalfEven(iv[2], res) - 1)} :
                       iv \in ClosedIntervalsKey(nt, k)} : k \in KeysOf(nt)}
GroupSound(r, g) == UNION {TrackSound(r.file[i + 1], r.res) : i \in SeqRange(r.groups[g])}
FileSigs(r, kind) ==
    LET all == UNION {{[m |-> m, i |-> i] : m \in {x \in SeqRange(r.file[i]) : x.ty = kind}} : i \in {q \in DOMAIN r.file : Considered(r, q - 1)}}
    IN SortSeq(SetToSeq(all), LAMBDA a, b : a.m.t < b.m.t \/ (a.m.t = b.m.t /\ a.i < b.i))
FileInForce(r, kind, t, dflt) ==
    LET s == SelectSeq(FileSigs(r, kind), LAMBDA x : RoundHalfEven(x.m.t, r.res) <= t) IN IF s = <<>> THEN dflt ELSE SigVal(s[Len(s)].m)
FileSigsSeparable(r, kind) == \A a, b \in SeqRange(FileSigs(r, kind)) :
                                 RoundHalfEven(a.m.t, r.res) = RoundHalfEven(b.m.t, r.res) => SigVal(a.m) = SigVal(b.m)
(* every loaded note or signature event sits on a tick nearest to the exact position of a file event of its class *)
Placed(r, e, g) == \E i \in (IF IsNote(e) THEN SeqRange(r.groups[g]) ELSE {q - 1 : q \in {x \in DOMAIN r.file : Considered(r, x - 1)}}) :
                      \E j \in DOMAIN r.file[i + 1] :
                         LET f == r.file[i + 1][j] IN
                         /\ f.ty = e.ty /\ (IsNote(e) => f.p = e.p) /\ (e.ty = "ts" => (f.n = e.n /\ f.d = e.d))
                         /\ (e.ty = "ks" => f.k = e.k) /\ IsNearest(e.t, f.t, r.res)
LoadClauses(r) ==
    LET ng == Len(r.groups)
        le(g) == AbsEvents(r.loaded[g])
        tgt == r.target + 1
        sigTicks == {0} \cup {RoundHalfEven(x.m.t, r.res) : x \in SeqRange(FileSigs(r, "ts")) \cup SeqRange(FileSigs(r, "ks"))}
                    \cup SigTicks(le(tgt), "ts") \cup SigTicks(le(tgt), "ks")
        defaulted == InForce(le(tgt), "ts", 0, <<>>) # <<>>
    IN << <<"one-sequence-per-group", Len(r.loaded) = ng>>,
          <<"nearest-tick", \A g \in 1 .. ng : \A j \in DOMAIN le(g) :
                 (IsNote(le(g)[j]) \/ le(g)[j].ty \in {"ts", "ks"}) =>
                     (Placed(r, le(g)[j], g) \/ (le(g)[j].ty = "ts" /\ le(g)[j].t = 0 /\ le(g)[j].n = 4 /\ le(g)[j].d = 4))>>,
          <<"sounding-is-union-of-group", ~HasTie(r) => \A g \in 1 .. ng :
                 Sounding(le(g), AbsDur(r.loaded[g])) = GroupSound(r, g)>>,
          <<"loaded-well-formed", \A g \in 1 .. ng : Alternates(le(g))>>,
          <<"loaded-views-agree", \A g \in DOMAIN r.loaded : SameContent(r.loaded[g], r.loadedRel[g])>>,
          <<"time-signature-in-force", (~HasTie(r) /\ FileSigsSeparable(r, "ts")) => \A t \in sigTicks :
                 InForce(le(tgt), "ts", t, <<4, 4>>) = FileInForce(r, "ts", t, <<4, 4>>)>>,
          <<"key-signature-in-force", (~HasTie(r) /\ FileSigsSeparable(r, "ks")) => \A t \in sigTicks :
                 InForce(le(tgt), "ks", t, <<"">>) = FileInForce(r, "ks", t, <<"">>)>>,
          <<"default-time-signature", defaulted>>,
          <<"signatures-only-on-target", \A g \in 1 .. ng : g # tgt => (SigsOf(le(g), "ts") = <<>> /\ SigsOf(le(g), "ks") = <<>>)>> >>

(* ------------------------------------------------ writer / reader reference system *)
CONSTANTS Pieces, Resolutions
VARIABLES rel, res, pos, buf, file, clock, out, phase
vars == <<rel, res, pos, buf, file, clock, out, phase>>
WInit == rel \in Pieces /\ res \in Resolutions /\ pos = 1 /\ buf = 0 /\ file = <<>> /\ clock = 0 /\ out = <<>> /\ phase = "write"
(* the file is written at resolution `res`: to exercise the reader's rescaling the writer scales waits by res / LibRes *)
WWait == /\ phase = "write" /\ pos <= Len(rel) /\ rel[pos].ty = "wait"
         /\ buf' = buf + rel[pos].t /\ pos' = pos + 1 /\ UNCHANGED <<rel, res, file, clock, out, phase>>
WEvent == /\ phase = "write" /\ pos <= Len(rel) /\ Writes(rel[pos])
          /\ file' = Append(file, [rel[pos] EXCEPT !.t = buf]) /\ buf' = 0
          /\ pos' = pos + 1 /\ UNCHANGED <<rel, res, clock, out, phase>>
WSilent == /\ phase = "write" /\ pos <= Len(rel) /\ rel[pos].ty # "wait" /\ ~Writes(rel[pos])
           /\ pos' = pos + 1 /\ UNCHANGED <<rel, res, buf, file, clock, out, phase>>
WDone == /\ phase = "write" /\ pos > Len(rel)
         /\ phase' = "read" /\ pos' = 1 /\ UNCHANGED <<rel, res, buf, file, clock, out>>
(* reader: `clock` is the exact file tick; placing an event rounds the exact position, the clock itself is never rounded *)
REvent == /\ phase = "read" /\ pos <= Len(file)
          /\ clock' = clock + file[pos].t
          /\ out' = Append(out, [file[pos] EXCEPT !.t = RoundHalfEven(clock + file[pos].t, res)])
          /\ pos' = pos + 1 /\ UNCHANGED <<rel, res, buf, file, phase>>
RDone == /\ phase = "read" /\ pos > Len(file) /\ phase' = "done" /\ UNCHANGED <<rel, res, pos, buf, file, clock, out>>
WNext == WWait \/ WEvent \/ WSilent \/ WDone \/ REvent \/ RDone

(* sum of deltas up to event i = absolute tick of that event in the source *)
RECURSIVE Cumul(_, _)
Cumul(f, i) == IF i = 0 THEN 0 ELSE Cumul(f, i - 1) + f[i].t
WrittenEvents == SelectSeq(RelEvents(SubSeq(rel, 1, IF phase = "write" THEN pos - 1 ELSE Len(rel))), Writes)
DeltaInv == /\ Len(file) = Len(WrittenEvents)
            /\ \A i \in DOMAIN file : Cumul(file, i) = WrittenEvents[i].t
(* no accumulation: every placed event is a nearest tick of its exact position *)
NearestInv == \A i \in DOMAIN out : IsNearest(out[i].t, Cumul(file, i), res)
(* at the library's own resolution reading back is the identity on ticks *)
IdentityAtLibRes == (phase = "done" /\ res = LibRes) => \A i \in DOMAIN out : out[i].t = WrittenEvents[i].t
RoundingLaw(Rs) == \A T \in 0 .. 60 : \A q \in Rs :
                  /\ IsNearest(RoundHalfEven(T, q), T, q)
                  /\ \A o \in 0 .. 70 : IsNearest(o, T, q) => (o = RoundHalfEven(T, q) \/ ExactTie(T, q))
=============================================================================
