CONSTANT InitScores <- MC_Scores
CONSTANT Ops <- MC_Ops
CONSTANT MaxSteps <- MC_MaxSteps
INIT SInit
NEXT SNext
INVARIANT StaysWellFormed
INVARIANT MeetsAcceptor
INVARIANT RenderingFaithful
CHECK_DEADLOCK FALSE
