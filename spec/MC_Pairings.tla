----------------------------- MODULE MC_Pairings -----------------------------
EXTENDS Pairings, IOUtils
Thorough == "VERIF_TIER" \in DOMAIN IOEnv /\ IOEnv.VERIF_TIER = "thorough"
(* every canonical-order list of up to 4 (thorough 5) events over a small alphabet: well-formed and ill-formed alike *)
Alpha == {MOn(0, 0, 60, 80), MOff(2, 0, 60), MOn(2, 0, 60, 70), MOff(5, 0, 60), MOn(1, 1, 60, 90), MOff(2, 1, 60),
          MOn(2, 0, 61, 50), MOff(2, 0, 61), MTs(2, 0, 3, 4), MOn(5, 0, 60, 60)}
RECURSIVE Lists(_)
Lists(n) == IF n = 0 THEN {<<>>} ELSE LET s == Lists(n - 1) IN s \cup {Append(l, a) : l \in s, a \in Alpha}
MC_Inputs == {Canon(l) : l \in Lists(IF Thorough THEN 5 ELSE 4)}
MC_Lengths == {24, 3}
=============================================================================
