--------------------------- MODULE Trace_TickTypes ---------------------------
(* One line per executed operation of a history: the kinds of every time value in both views of every live sequence
   (and of the numeric fields of emitted tokens) as the harness observed them; the specification takes Do(op). *)
EXTENDS TickTypes, TraceBase
T_Max == 1000000
T_Empty == {}
TraceStep ==
    LET r == Line
        k0 == IF r.first THEN {"int"} ELSE kinds
        t0 == IF r.first THEN {} ELSE tokenKinds
        h0 == IF r.first THEN <<>> ELSE hist
        seen == SetOfSeq(r.kinds)
        tseen == SetOfSeq(r.tokenKinds)
    IN /\ r.op \in Ops
       /\ kinds' = Effect(k0, r.op)
       /\ tokenKinds' = IF r.op \in Tokenising THEN t0 \cup Effect(k0, r.op) ELSE t0
       /\ hist' = Append(h0, r.op)
       /\ Emit([id |-> r.id,
                \* an operation that raised says nothing about times; tokens a completed tokenise call emitted before
                \* the raise (detokenise refusing them) are still judged
                fails |-> IF r.raised # "" THEN Fails(<< <<"token-fields-are-integers", tseen \subseteq {"int"}>>,
                                                         <<"tokens-in-vocabulary", r.tokensInVocab>> >>)
                          ELSE Fails(<< <<"times-are-integers", seen \subseteq kinds'>>,
                                        <<"token-fields-are-integers", tseen \subseteq {"int"}>>,
                                        <<"tokens-in-vocabulary", r.tokensInVocab>>,
                                        <<"views-readable", r.readable>> >>)])
TraceInit == TraceStart /\ kinds = {"int"} /\ tokenKinds = {} /\ hist = <<>>
TraceNext == HasLine /\ Advance /\ TraceStep
=============================================================================
