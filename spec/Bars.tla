-------------------------------- MODULE Bars --------------------------------
(***************************************************************************)
(* C09 / C10.  The Bar constructor and the bar splitter.                    *)
(*                                                                           *)
(* Splitter reference system (one action per bar): t = start of the next     *)
(* bar, sig / key = signatures in force there, `grid` = the bars emitted so  *)
(* far as <<start, length, sig, key>>.  Constructor reference system: the    *)
(* steps normalise - check capacity - pad - check signatures - install.      *)
(***************************************************************************)
EXTENDS Inputs

PPQN == 24
DefaultTs == <<4, 4>>
DefaultNoteValues == {4, 6, 8, 9, 12, 16, 18, 24, 36}
LenOf(sig) == BarLen(sig[1], sig[2], PPQN)

(* ---------------------------------------------------------------- C10 *)
TsEvents(rel) == SelectSeq(rel, LAMBDA m : m.ty = "ts")
FirstNonWait(rel) == LET s == SelectSeq(rel, LAMBDA m : m.ty # "wait") IN IF s = <<>> THEN MInt(0, 0) ELSE s[1]
(* r: [in, num, den, raised, out (rel), outAbs, copyOut, copyNum, copyDen, copyKey, key] *)
BarClauses(r) ==
    LET cap == BarLen(r.num, r.den, PPQN)
        its == TsEvents(r.in)
        tooLong == RelDur(r.in) > cap
        conflicting == \E i \in DOMAIN its : SigVal(its[i]) # <<r.num, r.den>>
        several == Len(its) > 1
        ok == r.raised = ""
        ots == TsEvents(r.out)
    IN << <<"only-bar-error", r.raised \in {"", "BarException"}>>,
          <<"exact-length", ok => RelDur(r.out) = cap>>,
          <<"abs-view-length", ok => AbsDur(r.outAbs) = cap>>,
          <<"one-signature", ok => Len(ots) = 1>>,
          <<"signature-equals-bar", ok => \A i \in DOMAIN ots : SigVal(ots[i]) = <<r.num, r.den>>>>,
          <<"signature-first", (ok /\ Len(ots) >= 1) => (r.out[1].ty = "ts")>>,
          <<"too-long-rejected", tooLong => ~ok>>,
          <<"conflicting-signature-rejected", conflicting => ~ok>>,
          <<"second-signature-rejected", several => ~ok>>,
          <<"copy-equal", ok => /\ r.copyRaised = ""
                                /\ r.copyNum = r.num /\ r.copyDen = r.den /\ r.copyKey = r.key
                                /\ EventBag(RelEvents(r.copyOut)) = EventBag(RelEvents(r.out))
                                /\ RelDur(r.copyOut) = RelDur(r.out) /\ r.copyEquals>>,
          (* a copy taken after the bar was transposed carries the bar's current key, signature and content *)
          <<"copy-after-transpose-equal", (ok /\ r.later.done) =>
                 /\ r.later.copyKey = r.later.barKey /\ r.later.sigSame /\ r.later.equals
                 /\ EventBag(RelEvents(r.later.copyOut)) = EventBag(RelEvents(r.later.barOut))
                 /\ RelDur(r.later.copyOut) = RelDur(r.later.barOut)>> >>

(* ---------------------------------------------------------------- C09 *)
(* expected bar grid from the meta track: signatures in force at each bar start, until maxDur is covered *)
RECURSIVE GridFrom(_, _, _, _)
GridFrom(meta, t, maxDur, acc) ==
    LET sig == InForce(meta, "ts", t, DefaultTs)
        key == InForce(meta, "ks", t, <<"">>)
        b == [start |-> t, len |-> LenOf(sig), sig |-> sig, key |-> key[1]]
    IN IF (t >= maxDur /\ acc # <<>>) \/ LenOf(sig) <= 0 \/ Len(acc) > 40 THEN acc
       ELSE GridFrom(meta, t + LenOf(sig), maxDur, Append(acc, b))
ExpectedGrid(meta, maxDur) == GridFrom(meta, 0, maxDur, <<>>)
Aligned(meta, grid) == \A i \in DOMAIN meta : meta[i].ty \in {"ts", "ks"} =>
                           (\E j \in DOMAIN grid : grid[j].start = meta[i].t) \/ meta[i].t >= grid[Len(grid)].start + grid[Len(grid)].len
(* r: [tracks (seq of rel), metaIdx, qnl, bars (seq over tracks of seq of [rel, num, den, key]), tracksAfter, absBefore, absAfter] *)
BarSplitClauses(r) ==
    LET n == Len(r.tracks)
        evs(i) == RelEvents(r.tracks[i])
        dur(i) == RelDur(r.tracks[i])
        maxDur == MaxOf({dur(i) : i \in 1 .. n}, 0)
        grid == ExpectedGrid(evs(r.metaIdx), maxDur)
        nb == Len(r.bars[1])
        g(k) == grid[k]
        inGrid(k) == k <= Len(grid)
        total == SumSeq([k \in 1 .. nb |-> RelDur(r.bars[1][k].rel)])
        barSound(i) == UNION {ShiftSound(Sounding(RelEvents(r.bars[i][k].rel), RelDur(r.bars[i][k].rel)),
                                         SumSeq([q \in 1 .. (k - 1) |-> RelDur(r.bars[i][q].rel)])) : k \in 1 .. Len(r.bars[i])}
        srcSound(i) == Sounding(evs(i), dur(i))
        starts == {grid[k].start : k \in DOMAIN grid}
        uncut(i) == {x \in Notes(evs(i)) : /\ (x.e - x.s) \in DefaultNoteValues
                                           /\ ~\E b \in starts : x.s < b /\ b < x.e}
    IN << <<"equal-bar-counts", \A i \in 1 .. n : Len(r.bars[i]) = nb>>,
          <<"bar-count-follows-grid", nb = Len(grid)>>,
          <<"bar-lengths", \A i \in 1 .. n : \A k \in 1 .. Len(r.bars[i]) : inGrid(k) => RelDur(r.bars[i][k].rel) = g(k).len>>,
          <<"bar-signature", \A i \in 1 .. n : \A k \in 1 .. Len(r.bars[i]) : inGrid(k) =>
                                 /\ <<r.bars[i][k].num, r.bars[i][k].den>> = g(k).sig
                                 /\ LET ts == TsEvents(r.bars[i][k].rel) IN Len(ts) = 1 /\ SigVal(ts[1]) = g(k).sig>>,
          <<"bar-key", \A i \in 1 .. n : \A k \in 1 .. Len(r.bars[i]) : inGrid(k) => r.bars[i][k].key = g(k).key>>,
          <<"coverage", maxDur > 0 => (total >= maxDur /\ total - maxDur < RelDur(r.bars[1][nb].rel))>>,
          <<"sound-exact-without-requantisation", ~r.qnl => \A i \in 1 .. n : barSound(i) = srcSound(i)>>,
          <<"sound-subset-with-requantisation", r.qnl => \A i \in 1 .. n : barSound(i) \subseteq srcSound(i)>>,
          <<"uncut-notes-intact", r.qnl => \A i \in 1 .. n : \A x \in uncut(i) : \A t \in x.s .. (x.e - 1) : <<x.ch, x.p, t>> \in barSound(i)>>,
          (* C06 through this entry point: with re-quantisation every note of every bar has an allowed (default) duration *)
          <<"requantised-durations-allowed", r.qnl => \A i \in 1 .. n : \A k \in 1 .. Len(r.bars[i]) :
                 \A x \in Notes(RelEvents(r.bars[i][k].rel)) : (x.e - x.s) \in DefaultNoteValues>>,
          <<"bars-closed", \A i \in 1 .. n : \A k \in 1 .. Len(r.bars[i]) : Alternates(RelEvents(r.bars[i][k].rel))>>,
          (* the stored order of the events of one tick in the absolute view is not content (reading sorts it): multiset there *)
          <<"inputs-unchanged", /\ r.tracksAfter = r.tracks /\ Len(r.absAfter) = Len(r.absBefore)
                                /\ \A i \in DOMAIN r.absBefore : BagOfSeq(r.absAfter[i]) = BagOfSeq(r.absBefore[i])>> >>
InSplitDomain(r) ==
    LET n == Len(r.tracks)
        maxDur == MaxOf({RelDur(r.tracks[i]) : i \in 1 .. n}, 0)
        meta == RelEvents(r.tracks[r.metaIdx])
    IN /\ \A i \in 1 .. n : WellFormed(RelEvents(r.tracks[i])) /\ NoOverlap(Notes(RelEvents(r.tracks[i])))
       /\ Aligned(meta, ExpectedGrid(meta, maxDur))

(* ------------------------------------------------ splitter reference system *)
CONSTANTS MetaTracks, Durations
VARIABLES meta, maxDur, t, grid
vars == <<meta, maxDur, t, grid>>
BInit == meta \in MetaTracks /\ maxDur \in Durations /\ t = 0 /\ grid = <<>>
(* pick up the signatures whose tick has been reached, emit one bar, advance by its length *)
EmitBar == /\ (t < maxDur \/ grid = <<>>)
           /\ LET sig == InForce(meta, "ts", t, DefaultTs)
                  key == InForce(meta, "ks", t, <<"">>)
              IN /\ grid' = Append(grid, [start |-> t, len |-> LenOf(sig), sig |-> sig, key |-> key[1]])
                 /\ t' = t + LenOf(sig)
           /\ UNCHANGED <<meta, maxDur>>
BNext == EmitBar
BDone == t >= maxDur /\ grid # <<>>
(* bars abut, start at 0, and the recursive definition used by the acceptor agrees with the loop *)
GridContiguous == \A k \in DOMAIN grid : grid[k].start = SumSeq([q \in 1 .. (k - 1) |-> grid[q].len])
GridMatchesDefinition == BDone => grid = ExpectedGrid(meta, maxDur)
CoverageInv == BDone => (t >= maxDur /\ (maxDur > 0 => t - maxDur < grid[Len(grid)].len))
SignatureInForceInv == \A k \in DOMAIN grid : grid[k].sig = InForce(meta, "ts", grid[k].start, DefaultTs)
=============================================================================
