CONSTANT Inputs <- MC_Inputs
CONSTANT Lengths <- MC_Lengths
INIT PInit
NEXT PNext
INVARIANT MeetsAcceptor
INVARIANT OpenTableInv
CHECK_DEADLOCK FALSE
