CONSTANT Configs <- MC_Configs
CONSTANT PiecesOf <- MC_PiecesOf
CONSTANT Defect <- NoDefect
INIT GenInit
NEXT GenNext
