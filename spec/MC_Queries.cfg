CONSTANT Views <- MC_Views
CONSTANT TypeSets <- MC_TypeSets
INIT QInit
NEXT QNext
INVARIANT MeetsAcceptor
INVARIANT ScanRight
CHECK_DEADLOCK FALSE
