------------------------------ MODULE TraceBase ------------------------------
(***************************************************************************)
(* Skeleton shared by every trace validator.  One observation (ndjson line) *)
(* is consumed per TLC state; for each line the validator records a TOTAL   *)
(* verdict (the names of the clauses that failed) and goes on, so the rest  *)
(* of a trace is always examined.  Run with -workers 1.                     *)
(*   env TRACE_FILE: observations, OUT_FILE: verdicts (ndjson)              *)
(***************************************************************************)
EXTENDS Json, IOUtils, TLC, TLCExt, Sequences, Naturals

Obs == ndJsonDeserialize(IOEnv.TRACE_FILE)
VARIABLE l
TraceStart == l = 1 /\ TLCSet(1, <<>>)
HasLine == l <= Len(Obs)
Line == Obs[l]
Emit(v) == TLCSet(1, Append(TLCGet(1), v))
Advance == l' = l + 1
(* clauses: sequence of <<name, holds>>; result: names of the clauses that do not hold *)
Fails(clauses) == LET bad == SelectSeq(clauses, LAMBDA c : ~c[2]) IN [i \in DOMAIN bad |-> bad[i][1]]
TraceAccepted == /\ ndJsonSerialize(IOEnv.OUT_FILE, TLCGet(1))
                 /\ TLCGet("stats").diameter - 1 = Len(Obs)
SetOfSeq(s) == {s[i] : i \in DOMAIN s}
=============================================================================
