---------------------------- MODULE Gen_KeyGuess ----------------------------
EXTENDS MC_KeyGuess, Json, TLC
GenInit == src = <<>> /\ pos = 1 /\ lead = "" /\ sawWait = FALSE /\ misses = <<>> /\ guess = "" /\ phase = "done"
GenNext == UNCHANGED vars
ASSUME ndJsonSerialize(IOEnv.GEN_FILE, <<[pieces |-> SetToSeq(MC_Pieces)]>>)
=============================================================================
