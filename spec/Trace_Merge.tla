----------------------------- MODULE Trace_Merge -----------------------------
EXTENDS Merge, TraceBase
T_Empty == {}
Verdict(r) == IF r.raised # "" THEN <<"raised">> ELSE IF ~InMergeDomain(r) THEN <<>> ELSE Fails(MergeClauses(r))
TraceInit == TraceStart /\ family = <<>> /\ pending = {} /\ notes = {} /\ dur = 0
TraceNext == HasLine /\ Advance /\ UNCHANGED vars
             /\ Emit([id |-> Line.id, fails |-> Verdict(Line), judged |-> (Line.raised = "" /\ InMergeDomain(Line))])
=============================================================================
