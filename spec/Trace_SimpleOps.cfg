CONSTANT InitScores <- T_Init
CONSTANT Ops <- T_Ops
CONSTANT MaxSteps <- T_Max
INIT TraceInit
NEXT TraceNext
POSTCONDITION TraceAccepted
CHECK_DEADLOCK FALSE
