CONSTANT Scores <- T_Empty
CONSTANT ValueLists <- T_Empty
INIT TraceInit
NEXT TraceNext
POSTCONDITION TraceAccepted
CHECK_DEADLOCK FALSE
