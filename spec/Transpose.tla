------------------------------ MODULE Transpose ------------------------------
(***************************************************************************)
(* C14: transposition.  Reference system: the relative view is walked       *)
(* message by message; a note's pitch is shifted and then moved by octaves   *)
(* until it is inside the playable range; a key signature is transposed      *)
(* (Theory.tla).  If anything was moved by octaves the public call then      *)
(* normalises and re-quantises note lengths, so the acceptor for that case   *)
(* only states what the property states.                                     *)
(***************************************************************************)
EXTENDS Inputs, TheoryDefs

Lo == 21
Hi == 108
InRange(p) == Lo <= p /\ p <= Hi
(* move by whole octaves into the range (the range is wider than an octave, so this is well defined) *)
Wrap(x) == IF x < Lo THEN x + 12 * (((Lo - x) + 11) \div 12)
           ELSE IF x > Hi THEN x - 12 * (((x - Hi) + 11) \div 12)
           ELSE x

ShiftMsg(m, i) == IF IsNote(m) THEN [m EXCEPT !.p = Wrap(m.p + i)]
                  ELSE IF m.ty = "ks" /\ m.k \in Keys THEN [m EXCEPT !.k = CHOOSE o \in TransposeSet(m.k, i) : TRUE]
                  ELSE m

(* ---- acceptor ---- *)
NeedsWrap(evs, i) == \E j \in DOMAIN evs : evs[j].ty = "on" /\ ~InRange(evs[j].p + i)
KeySeq(evs) == SelectSeq(evs, LAMBDA m : m.ty = "ks")
TransposeClauses(pre, i, post, flag, back) ==
    LET Nin == Notes(pre) 
        Nout == Notes(post)
        wrap == NeedsWrap(pre, i)
        kin == KeySeq(pre)
        kout == KeySeq(post)
    IN << <<"in-range", \A j \in DOMAIN post : IsNote(post[j]) => InRange(post[j].p)>>,
          <<"image-of-original", \A y \in Nout : \E x \in Nin : x.ch = y.ch /\ x.s = y.s /\ (y.p - (x.p + i)) % 12 = 0>>,
          <<"flag", flag = wrap>>,
          <<"exact-shift", ~wrap => Nout = {[x EXCEPT !.p = x.p + i] : x \in Nin}>>,
          <<"other-events-untouched", ~wrap => NonNoteBag(SelectSeq(post, LAMBDA m : m.ty # "ks"))
                                                = NonNoteBag(SelectSeq(pre, LAMBDA m : m.ty # "ks"))>>,
          (* a source note outside the playable range cannot be restored by the way back (the way back must itself end
             inside the range), so the inverse law is stated for sources inside the range *)
          <<"inverse-restores", (~wrap /\ back.done /\ \A x \in Nin : InRange(x.p))
                                    => (Notes(back.evs) = Nin /\ back.flag = FALSE)>>,
          <<"keys-defined", \A j \in DOMAIN kout : kout[j].k \in Keys>>,
          <<"keys-transposed", (~wrap \/ Len(kout) = Len(kin)) =>
                 (Len(kout) = Len(kin) /\ \A j \in DOMAIN kin : (kin[j].k \in Keys /\ kout[j].k \in Keys)
                                                                   => TransposeOk(kin[j].k, i, kout[j].k))>> >>
BarKeyClauses(kin, i, kout) ==
    << <<"bar-key-defined", kin \in Keys => kout \in Keys>>,
       <<"bar-key-transposed", (kin \in Keys /\ kout \in Keys) => TransposeOk(kin, i, kout)>>,
       <<"bar-key-absent-stays-absent", kin = "" => kout = "">> >>

(* ---- reference transition system: one action per message ---- *)
CONSTANTS Pieces, Shifts
VARIABLES src, by, pos, out, moved
vars == <<src, by, pos, out, moved>>
TInit0 == /\ src \in Pieces /\ by \in Shifts /\ pos = 1 /\ out = <<>> /\ moved = FALSE
DoNote == /\ pos <= Len(src) /\ IsNote(src[pos])
          /\ out' = Append(out, ShiftMsg(src[pos], by))
          /\ moved' = (moved \/ ~InRange(src[pos].p + by))
          /\ pos' = pos + 1 /\ UNCHANGED <<src, by>>
DoKey == /\ pos <= Len(src) /\ src[pos].ty = "ks"
         /\ \E o \in TransposeSet(src[pos].k, by) : out' = Append(out, [src[pos] EXCEPT !.k = o])
         /\ pos' = pos + 1 /\ UNCHANGED <<src, by, moved>>
DoOther == /\ pos <= Len(src) /\ ~IsNote(src[pos]) /\ src[pos].ty # "ks"
           /\ out' = Append(out, src[pos])
           /\ pos' = pos + 1 /\ UNCHANGED <<src, by, moved>>
TNext0 == DoNote \/ DoKey \/ DoOther
Done == pos > Len(src)

PitchesInRange == \A j \in DOMAIN out : IsNote(out[j]) => InRange(out[j].p)
PitchClassShifted == \A j \in DOMAIN out : IsNote(out[j]) => (out[j].p - (src[j].p + by)) % 12 = 0
FlagRight == Done => (moved = NeedsWrap(RelEvents(src), by))
(* when nothing was wrapped the reference output meets every clause, and shifting back is the identity *)
AllHold(cl) == \A j \in DOMAIN cl : cl[j][2]
MeetsAcceptor == (Done /\ ~moved) =>
    LET backOut == [j \in DOMAIN out |-> ShiftMsg(out[j], -by)] IN
    AllHold(TransposeClauses(RelEvents(src), by, RelEvents(out), moved,
                             [done |-> TRUE, evs |-> RelEvents(backOut), flag |-> NeedsWrap(RelEvents(out), -by)]))
WrapLaw == \A x \in -100 .. 230 : InRange(Wrap(x)) /\ (Wrap(x) - x) % 12 = 0 /\ (InRange(x) => Wrap(x) = x)
=============================================================================
