CONSTANT Defect <- T_NoDefect
CONSTANT MaxVersion <- T_Max
INIT TraceInit
NEXT TraceNext
POSTCONDITION TraceAccepted
CHECK_DEADLOCK FALSE
