CONSTANT Pieces <- MC_Pieces
INIT PInit
NEXT PNext
INVARIANT Conservation
INVARIANT BarsHoldTheirNotes
INVARIANT NothingLeft
INVARIANT EndToEnd
CHECK_DEADLOCK FALSE
