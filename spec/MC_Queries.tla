------------------------------ MODULE MC_Queries ------------------------------
EXTENDS Queries, IOUtils
Thorough == "VERIF_TIER" \in DOMAIN IOEnv /\ IOEnv.VERIF_TIER = "thorough"
Letters == {MWait(1, 0), MWait(3, 1), MOn(-1, 0, 60, 80), MOff(-1, 0, 60), MOn(-1, 1, 60, 80), MOff(-1, 1, 60),
            MTs(-1, 0, 3, 4), MTs(-1, 1, 4, 4), MKs(-1, 0, "G"), Msg("pc", -1, 1, 5, -1, -1, -1, "")}
RECURSIVE Lists(_)
Lists(n) == IF n = 0 THEN {<<>>} ELSE LET s == Lists(n - 1) IN s \cup {Append(x, a) : x \in s, a \in Letters}
MC_Views == Lists(IF Thorough THEN 5 ELSE 4)
MC_TypeSets == {{"ts"}, {"ts", "ks"}, {"on", "off"}, {"pc", "on"}, {}}
=============================================================================
