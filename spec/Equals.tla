-------------------------------- MODULE Equals --------------------------------
(***************************************************************************)
(* C17: sequence equality.  The specification defines what two sequences     *)
(* must compare as, from their contents: the projection of a content under a *)
(* set of ignore flags.  Reference system: a base content is perturbed in    *)
(* exactly one attribute; the classification of every (perturbation, flags)  *)
(* pair is the table the property states.                                    *)
(***************************************************************************)
EXTENDS Inputs

Flags == {"channel", "time_signature", "key_signature", "velocity"}
SigStreamOf(evs, kind) == LET s == SigsOf(evs, kind) IN [i \in DOMAIN s |-> <<s[i].t, SigVal(s[i])>>]
Content(abs) == LET e == AbsEvents(abs) IN
    [notes |-> Notes(e), ts |-> SigStreamOf(e, "ts"), ks |-> SigStreamOf(e, "ks"), chans |-> {e[i].ch : i \in DOMAIN e}]
(* channels of ALL events: a sequence whose signature sits on another channel than its notes is not single-channel *)
Channels(c) == c.chans
(* strict projection: the channel is blanked only for the property's case, a single-channel sequence *)
Proj(c, fl, blankCh) ==
    [notes |-> {[ch |-> IF blankCh THEN 0 ELSE x.ch, p |-> x.p, s |-> x.s, e |-> x.e,
                 v |-> IF "velocity" \in fl THEN 0 ELSE x.v] : x \in c.notes},
     ts |-> IF "time_signature" \in fl THEN <<>> ELSE c.ts,
     ks |-> IF "key_signature" \in fl THEN <<>> ELSE c.ks]
SingleChannel(c) == Cardinality(Channels(c)) <= 1
MustEqual(a, b, fl) == LET bc == "channel" \in fl /\ SingleChannel(a) /\ SingleChannel(b) IN Proj(a, fl, bc) = Proj(b, fl, bc)
MustDiffer(a, b, fl) == Proj(a, fl, "channel" \in fl) # Proj(b, fl, "channel" \in fl)

FlagSet(f) == {x \in Flags : (x = "channel" /\ f[1]) \/ (x = "time_signature" /\ f[2])
                             \/ (x = "key_signature" /\ f[3]) \/ (x = "velocity" /\ f[4])}
(* r: [a, b (abs views), res (seq of [flags, ab, ba]), aa, bb, copyEq, eqOp] *)
EqualsClauses(r) ==
    LET a == Content(r.a) b == Content(r.b) IN
    << <<"must-equal", \A i \in DOMAIN r.res : MustEqual(a, b, FlagSet(r.res[i].flags)) => (r.res[i].ab /\ r.res[i].ba)>>,
       <<"must-differ", \A i \in DOMAIN r.res : MustDiffer(a, b, FlagSet(r.res[i].flags)) => (~r.res[i].ab /\ ~r.res[i].ba)>>,
       <<"symmetric", \A i \in DOMAIN r.res : r.res[i].ab = r.res[i].ba>>,
       <<"reflexive", r.aa /\ r.bb>>,
       <<"copy-equal", r.copyEq>>,
       <<"eq-operator-agrees", \A i \in DOMAIN r.res : FlagSet(r.res[i].flags) = {} => r.eqOp = r.res[i].ab>> >>
InEqualsDomain(r) == /\ WellFormed(AbsEvents(r.a)) /\ NoOverlap(Notes(AbsEvents(r.a)))
                     /\ WellFormed(AbsEvents(r.b)) /\ NoOverlap(Notes(AbsEvents(r.b)))

(* ---- reference system: one single-attribute perturbation of a base score ---- *)
CONSTANTS Bases
VARIABLES base, other, kind
vars == <<base, other, kind>>
Kinds == {"none", "pitch", "onset", "duration", "velocity", "channel-uniform", "channel-one-note", "ts-value", "ts-tick",
          "ts-tick-far", "ks-value", "ks-tick", "ks-tick-far", "extra-note", "missing-note", "extra-ts", "extra-ks", "velocity-unset"}
EInit == base \in Bases /\ other = base /\ kind = "none"
MapNote(sc, x, y) == [sc EXCEPT !.notes = (@ \ {x}) \cup {y}]
MapExtra(sc, m, n) == [sc EXCEPT !.extras = (@ \ {m}) \cup {n}]
Legal(sc) == NoOverlap(sc.notes) /\ \A x \in sc.notes : x.e > x.s /\ x.s >= 0
NoteKinds5 == {"pitch", "onset", "duration", "velocity", "channel-one-note", "velocity-unset"}
NoteVariant(x, k) == CASE k = "pitch" -> [x EXCEPT !.p = @ + 1]
                       [] k = "onset" -> [x EXCEPT !.s = @ + 1, !.e = @ + 1]
                       [] k = "duration" -> [x EXCEPT !.e = @ + 1]
                       [] k = "velocity" -> [x EXCEPT !.v = @ + 1]
                       [] k = "velocity-unset" -> [x EXCEPT !.v = -1]         \* a note-on created without a velocity
                       [] k = "channel-one-note" -> [x EXCEPT !.ch = @ + 1]
SigVariant(m, k) == CASE k = "ts-value" -> [m EXCEPT !.n = @ + 1]
                      [] k = "ts-tick" -> [m EXCEPT !.t = @ + 1]
                      [] k = "ts-tick-far" -> [m EXCEPT !.t = @ + 7]      \* past the first notes: the first message changes
                      [] k = "ks-tick-far" -> [m EXCEPT !.t = @ + 7]
                      [] k = "ks-value" -> [m EXCEPT !.k = CASE @ = "G" -> "D" [] @ = "Db" -> "C#" [] @ = "F#" -> "Gb" [] @ = "Cb" -> "B"
                                                                    [] OTHER -> "G"]    \* incl. enharmonic twins: different signatures
                      [] k = "ks-tick" -> [m EXCEPT !.t = @ + 1]
(* one note more (after everything else, in a gap, before everything else), one note less, one signature more *)
LastEnd(b) == MaxOf({x.e : x \in b.notes}, 0)
ExtraNotes(b) == LET c == MinOf({x.ch : x \in b.notes}, 0) IN
    {[ch |-> c, p |-> 65, s |-> LastEnd(b), e |-> LastEnd(b) + 3, v |-> 80],
     [ch |-> c, p |-> 59, s |-> LastEnd(b) + 5, e |-> LastEnd(b) + 6, v |-> 80],
     [ch |-> c, p |-> 58, s |-> 0, e |-> 1, v |-> 80],
     [ch |-> c, p |-> 66, s |-> 3, e |-> LastEnd(b) + 1, v |-> 80]}
(* all single-attribute perturbations of a base score that stay well-formed *)
Perturbed(b) ==
    {r \in {[kind |-> "extra-note", other |-> [b EXCEPT !.notes = @ \cup {y}]] : y \in ExtraNotes(b)} : Legal(r.other)}
    \cup {[kind |-> "missing-note", other |-> [b EXCEPT !.notes = @ \ {x}]] : x \in b.notes}
    \cup {[kind |-> "extra-ts", other |-> [b EXCEPT !.extras = @ \cup {MTs(LastEnd(b) + 2, 0, 5, 4)}]],
          [kind |-> "extra-ks", other |-> [b EXCEPT !.extras = @ \cup {MKs(LastEnd(b) + 2, 0, "A")}]]}
    \cup
    {r \in {[kind |-> k, other |-> MapNote(b, x, NoteVariant(x, k))] : k \in NoteKinds5, x \in b.notes} : Legal(r.other)}
    \cup (IF Cardinality({x.ch : x \in b.notes} \cup {m.ch : m \in b.extras}) = 1
          THEN {[kind |-> "channel-uniform", other |-> [b EXCEPT !.notes = {[x EXCEPT !.ch = @ + 1] : x \in @},
                                                                 !.extras = {[m EXCEPT !.ch = @ + 1] : m \in @}]]} ELSE {})
    \cup {[kind |-> k, other |-> MapExtra(b, m, SigVariant(m, k))] : k \in {"ts-value", "ts-tick", "ts-tick-far"}, m \in {e \in b.extras : e.ty = "ts"}}
    \cup {[kind |-> k, other |-> MapExtra(b, m, SigVariant(m, k))] : k \in {"ks-value", "ks-tick", "ks-tick-far"}, m \in {e \in b.extras : e.ty = "ks"}}
Perturb == /\ kind = "none"
           /\ \E r \in Perturbed(base) : kind' = r.kind /\ other' = r.other
           /\ UNCHANGED base
ENext == Perturb
ContentOfScore(sc) == Content(AbsOfNotes(sc.notes, sc.extras, sc.dur))
FlagOf(k) == CASE k \in {"channel-uniform", "channel-one-note"} -> "channel"
               [] k \in {"ts-value", "ts-tick", "ts-tick-far", "extra-ts"} -> "time_signature"
               [] k \in {"ks-value", "ks-tick", "ks-tick-far", "extra-ks"} -> "key_signature"
               [] k \in {"velocity", "velocity-unset"} -> "velocity"
               [] OTHER -> "no-flag"
(* the property's table: a single-attribute difference is relaxed by exactly its own flag *)
TableHolds ==
    LET a == ContentOfScore(base) b == ContentOfScore(other) IN
    \A fl \in SUBSET Flags :
       /\ kind = "none" => MustEqual(a, b, fl)
       /\ (kind # "none" /\ FlagOf(kind) \notin fl) => MustDiffer(a, b, fl)
       /\ (kind \in {"velocity", "velocity-unset", "ts-value", "ts-tick", "ts-tick-far", "ks-value", "ks-tick", "ks-tick-far", "channel-uniform",
                     "extra-ts", "extra-ks"}
             /\ FlagOf(kind) \in fl) => MustEqual(a, b, fl)
       /\ ~(MustEqual(a, b, fl) /\ MustDiffer(a, b, fl))
=============================================================================
