-------------------------- MODULE Trace_TrackProgram --------------------------
EXTENDS TrackProgram, TraceBase
T_Empty == {}
TraceInit == TraceStart /\ bars = <<>> /\ pos = 1 /\ seen = {} /\ verdict = "ok"
TraceNext == HasLine /\ Advance /\ UNCHANGED vars
             /\ Emit([id |-> Line.id, fails |-> Fails(TrackClauses(Line)), rejected |-> Line.raised # ""])
=============================================================================
