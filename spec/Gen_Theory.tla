----------------------------- MODULE Gen_Theory -----------------------------
(* Writes every behaviour of length 2 of the reference system (restricted second step). *)
EXTENDS Theory, Json, IOUtils, TLC, SequencesExt
MC_Intervals == -25 .. 25
Second == {-24, -13, -12, -7, -1, 0, 1, 5, 12, 25}
Paths == {[start |-> k, steps |-> <<i, j>>] : k \in Keys, i \in MC_Intervals, j \in Second}
GenInit == start = "C" /\ key = "C" /\ acc = 0
GenNext == UNCHANGED vars
ASSUME ndJsonSerialize(IOEnv.GEN_FILE, SetToSeq(Paths))
=============================================================================
