------------------------------ MODULE MC_Merge ------------------------------
EXTENDS Merge, IOUtils
Thorough == "VERIF_TIER" \in DOMAIN IOEnv /\ IOEnv.VERIF_TIER = "thorough"
Cands == NoteCands({0}, {60}, {0, 2, 4, 6}, {2, 4, 6}, {80}) \cup NoteCands({1}, {60}, {0, 4}, {4}, {50})
         \cup NoteCands({0}, {62}, {1, 4}, {3}, {70})
Scores == {[notes |-> N, extras |-> {}, dur |-> d] : N \in NoteSets(Cands, 2), d \in {0, 20}}
Small == {sc \in Scores : Cardinality(sc.notes) <= 1 \/ sc.dur = 0}
MC_Families == {<<a>> : a \in Small} \cup {<<a, b>> : a \in Small, b \in Small}
               \cup (IF Thorough THEN {<<a, b, c>> : a \in {s \in Small : Cardinality(s.notes) = 1}, b \in {s \in Small : Cardinality(s.notes) = 1}, c \in {s \in Small : Cardinality(s.notes) <= 1}} ELSE {})
=============================================================================
