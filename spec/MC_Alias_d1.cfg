CONSTANT MaxObjects <- MC_MaxObjects
CONSTANT MaxOps <- MC_MaxOps
CONSTANT Defect <- D_Split
INIT Init
NEXT Next
INVARIANT Independent
INVARIANT NoSharedCells
CHECK_DEADLOCK FALSE
