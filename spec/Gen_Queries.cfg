CONSTANT Views <- MC_Views
CONSTANT TypeSets <- MC_TypeSets
INIT GenInit
NEXT GenNext
CHECK_DEADLOCK FALSE
