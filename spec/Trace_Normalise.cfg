CONSTANT Alphabet <- T_Alphabet
CONSTANT MaxLen <- T_Max
CONSTANT Defect <- T_NoDefect
INIT TraceInit
NEXT TraceNext
POSTCONDITION TraceAccepted
CHECK_DEADLOCK FALSE
