------------------------------- MODULE TheoryDefs -------------------------------
(***************************************************************************)
(* Keys, major scales and the circle of fifths (C20; used by C14 and C19). *)
(* The specification fixes what a key IS (its tonic pitch class and the    *)
(* major scale on it) and states transposition up to enharmonic spelling:  *)
(* any key with the right tonic is an acceptable result.                   *)
(***************************************************************************)
EXTENDS Integers, FiniteSets, Sequences

Keys == {"C", "G", "D", "A", "E", "B", "F#", "C#", "F", "Bb", "Eb", "Ab", "Db", "Gb", "Cb"}
Tonic(k) == CASE k = "C" -> 0 [] k = "G" -> 7 [] k = "D" -> 2 [] k = "A" -> 9 [] k = "E" -> 4
              [] k = "B" -> 11 [] k = "F#" -> 6 [] k = "C#" -> 1 [] k = "F" -> 5 [] k = "Bb" -> 10
              [] k = "Eb" -> 3 [] k = "Ab" -> 8 [] k = "Db" -> 1 [] k = "Gb" -> 6 [] k = "Cb" -> 11
MajorSteps == {0, 2, 4, 5, 7, 9, 11}
ScaleOn(t) == {(t + s) % 12 : s \in MajorSteps}
ScaleOf(k) == ScaleOn(Tonic(k))
ShiftPcs(S, i) == {(x + i) % 12 : x \in S}

(* the acceptable results of transposing key k by i semitones *)
TransposeSet(k, i) == {o \in Keys : Tonic(o) = (Tonic(k) + i) % 12}
TransposeOk(k, i, out) == out \in TransposeSet(k, i)

(* circle of fifths: position -5..6 of a pitch class, C = 0, one step = a fifth *)
CofPosition(p) == ((7 * p + 5) % 12) - 5
CofDistOk(a, b, dist) == /\ dist \in -5 .. 6
                         /\ (dist - (CofPosition(b) - CofPosition(a))) % 12 = 0
CofLandsOk(b, res) == res = b % 12

=============================================================================
