------------------------------- MODULE Theory -------------------------------
(* C20: the reference transition system over the definitions of TheoryDefs (a key transposed repeatedly). *)
EXTENDS TheoryDefs
---------------------------------------------------------------------------
(* Reference transition system: a key being transposed repeatedly. `acc` is the sum of all
   intervals applied so far (mod 12); the design invariant is additivity. *)
CONSTANT Intervals
VARIABLES start, key, acc
vars == <<start, key, acc>>

TInit == start \in Keys /\ key = start /\ acc = 0
Transpose(i) == /\ key' \in TransposeSet(key, i)
                /\ acc' = (acc + i) % 12
                /\ UNCHANGED start
TNext == \E i \in Intervals : Transpose(i)

Additive == Tonic(key) = (Tonic(start) + acc) % 12
NeverUndefined == key \in Keys /\ \A i \in Intervals : TransposeSet(key, i) # {}
ScaleFollows == ScaleOf(key) = ShiftPcs(ScaleOf(start), acc)
IdentityOnOctaves == [][\A i \in Intervals : (i % 12 = 0 /\ acc' = acc) => Tonic(key') = Tonic(key)]_vars
EveryKeyMajor == \A k \in Keys : Cardinality(ScaleOf(k)) = 7 /\ Tonic(k) \in ScaleOf(k)
CofLaws == \A a, b \in 0 .. 11 :
              LET d == CHOOSE x \in -5 .. 6 : (x - (CofPosition(b) - CofPosition(a))) % 12 = 0
              IN CofDistOk(a, b, d) /\ CofPosition(a) \in -5 .. 6
=============================================================================
