---- MODULE MC_Theory ----
EXTENDS Theory
MC_Intervals == -25 .. 25
====
