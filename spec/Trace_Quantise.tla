--------------------------- MODULE Trace_Quantise ---------------------------
EXTENDS Quantise, TraceBase
T_Empty == {}
Verdict(r) == IF r.raised # "" THEN <<"raised">>
              ELSE IF ~(WellFormed(AbsEvents(r.in)) /\ NoOverlap(Notes(AbsEvents(r.in)))) THEN <<>>
              ELSE Fails(QuantiseClauses(r.in, r.steps, r.out) \o << <<"views-agree", SameContent(r.out, r.outRel)>> >>)
TraceInit == /\ TraceStart /\ src = <<>> /\ steps = <<>> /\ pos = 1 /\ openAt = <<>> /\ lastEnd = <<>> /\ out = <<>>
             /\ phase = "done"
TraceNext == HasLine /\ Advance /\ UNCHANGED vars
             /\ Emit([id |-> Line.id, fails |-> Verdict(Line),
                      dropped |-> Cardinality(Notes(AbsEvents(Line.in))) - Cardinality(Notes(AbsEvents(Line.out)))])
=============================================================================
