---------------------------- MODULE Trace_KeyGuess ----------------------------
EXTENDS KeyGuess, TraceBase
T_Empty == {}
Verdict(r) == IF r.raised # "" THEN <<"raised">> ELSE Fails(GuessClauses(r.rel, r.guess) \o << <<"sequence-unchanged", r.after = r.rel>> >>)
TraceInit == TraceStart /\ src = <<>> /\ pos = 1 /\ lead = "" /\ sawWait = FALSE /\ misses = <<>> /\ guess = "" /\ phase = "done"
TraceNext == HasLine /\ Advance /\ UNCHANGED vars
             /\ Emit([id |-> Line.id, fails |-> Verdict(Line), led |-> LeadingKey(Line.rel) # ""])
=============================================================================
