CONSTANT Scores <- MC_Scores
CONSTANT CapLists <- MC_CapLists
CONSTANT Defect <- NoDefect
INIT GenInit
NEXT GenNext
