---------------------------- MODULE Trace_Theory ----------------------------
(* Validates observations of the real key / circle-of-fifths code against Theory. *)
EXTENDS Theory, TraceBase

Intervals_T == -100 .. 100

TkVerdict(r) ==
    LET def == r.out \in Keys IN
    Fails(<< <<"defined", def>>,
             <<"tonic", def => Tonic(r.out) = (Tonic(r.key) + r.i) % 12>>,
             <<"scale-shifted", def => SetOfSeq(r.scaleOut) = ShiftPcs(SetOfSeq(r.scaleIn), r.i)>>,
             <<"octave-identity", (def /\ r.i % 12 = 0) => Tonic(r.out) = Tonic(r.key)>> >>)

ScaleVerdict(r) ==
    Fails(<< <<"key-known", r.key \in Keys>>,
             <<"major-scale-on-tonic", r.key \in Keys => (SetOfSeq(r.scale) = ScaleOf(r.key) /\ Len(r.scale) = 7)>>,
             <<"tonic-first", r.key \in Keys => (Len(r.scale) > 0 /\ r.scale[1] = Tonic(r.key))>> >>)

CofRowVerdict(r) ==
    LET bad(name, P(_)) == <<name, \A j \in DOMAIN r.row : P(r.row[j])>> IN
    Fails(<< bad("position", LAMBDA x : x.pos = CofPosition(x.b)),
             bad("distance-range", LAMBDA x : x.dist \in -5 .. 6),
             bad("distance-congruent", LAMBDA x : (x.dist - (CofPosition(x.b) - CofPosition(r.a))) % 12 = 0),
             bad("lands", LAMBDA x : x.land = x.b % 12) >>)

(* keys carried by bars and sequences, transposed through Bar.transpose / Sequence.transpose and read back through the
   bar attribute and the key-signature messages of both views *)
EntryVerdict(r) ==
    Fails(<< <<"no-error", r.err = "">>,
             <<"every-carried-key-transposed", \A j \in DOMAIN r.outs :
                    r.outs[j][1] \in Keys => r.outs[j][2] \in TransposeSet(r.outs[j][1], r.i)>>,
             <<"keys-present", r.err = "" => Len(r.outs) >= 8>> >>)

(* a history of transpositions replayed on the real code: the specification takes Transpose(i)
   and binds the logged result when it is one the specification allows *)
TracePath ==
    /\ Line.kind = "path"
    /\ LET r == Line
           k0 == IF r.first THEN r.start ELSE key
           a0 == IF r.first THEN 0 ELSE acc
           s0 == IF r.first THEN r.start ELSE start
           allowed == TransposeSet(k0, r.i)
       IN /\ start' = s0
          /\ acc' = (a0 + r.i) % 12
          /\ key' = IF r.out \in allowed THEN r.out ELSE CHOOSE o \in allowed : TRUE
          /\ Emit([id |-> r.id,
                   fails |-> Fails(<< <<"defined", r.out \in Keys>>,
                                      <<"step", r.out \in allowed>>,
                                      <<"additive", r.out \in Keys => Tonic(r.out) = (Tonic(s0) + a0 + r.i) % 12>> >>)])

TraceTable ==
    /\ Line.kind # "path"
    /\ UNCHANGED vars
    /\ Emit([id |-> Line.id,
             fails |-> CASE Line.kind = "tk" -> TkVerdict(Line)
                         [] Line.kind = "scale" -> ScaleVerdict(Line)
                         [] Line.kind = "cof" -> CofRowVerdict(Line)
                         [] Line.kind = "entry" -> EntryVerdict(Line)
                         [] OTHER -> <<"unknown-line-kind">>])

TraceInit == TraceStart /\ start = "C" /\ key = "C" /\ acc = 0
TraceNext == HasLine /\ Advance /\ (TracePath \/ TraceTable)
=============================================================================
