CONSTANT MetaTracks <- T_Empty
CONSTANT Durations <- T_Empty
INIT TraceInit
NEXT TraceNext
POSTCONDITION TraceAccepted
CHECK_DEADLOCK FALSE
