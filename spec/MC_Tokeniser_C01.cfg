CONSTANT Configs <- MC_Configs
CONSTANT PiecesOf <- MC_PiecesOf
CONSTANT Defect <- NoDefect
INIT InitC01
NEXT Next
INVARIANT TokeniseSucceeds
INVARIANT VocabClosed
INVARIANT LockStep
INVARIANT TokeniseStreamLaws
INVARIANT RoundTrip
INVARIANT DurationRoundedUp
CHECK_DEADLOCK FALSE
