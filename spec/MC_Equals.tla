------------------------------ MODULE MC_Equals ------------------------------
EXTENDS Equals, IOUtils
Thorough == "VERIF_TIER" \in DOMAIN IOEnv /\ IOEnv.VERIF_TIER = "thorough"
Cands == NoteCands({0}, {60, 62}, {0, 4, 8}, {2, 5}, {70}) \cup NoteCands({1}, {60}, {0, 4}, {4}, {90})
(* signature events also on channel 1: which channel a sequence "starts" on then depends on an event equals may ignore *)
ExtraSets == {{MKs(0, 0, "Db")}, {MKs(2, 0, "F#")}, {MTs(0, 0, 4, 4), MKs(0, 0, "Cb")}, {}, {MTs(0, 0, 3, 4)}, {MTs(0, 0, 4, 4), MTs(6, 0, 3, 4)}, {MKs(0, 0, "G")}, {MTs(0, 0, 3, 4), MKs(2, 0, "D")},
              {MTs(0, 1, 3, 4)}, {MKs(0, 1, "G")}, {MTs(0, 0, 3, 4), MKs(0, 0, "D")}, {MTs(4, 0, 6, 8), MKs(4, 0, "E"), MKs(0, 0, "C")}}
MC_Bases == {[notes |-> N, extras |-> X, dur |-> 0] : N \in NoteSets(Cands, IF Thorough THEN 3 ELSE 2) \ {{}}, X \in ExtraSets}
=============================================================================
