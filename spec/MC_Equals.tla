------------------------------ MODULE MC_Equals ------------------------------
EXTENDS Equals, IOUtils
Thorough == "VERIF_TIER" \in DOMAIN IOEnv /\ IOEnv.VERIF_TIER = "thorough"
Cands == NoteCands({0}, {60, 62}, {0, 3, 8}, {2, 5}, {70}) \cup NoteCands({1}, {60}, {0, 4}, {4}, {90})
ExtraSets == {{}, {MTs(0, 0, 3, 4)}, {MTs(0, 0, 4, 4), MTs(6, 0, 3, 4)}, {MKs(0, 0, "G")}, {MTs(0, 0, 3, 4), MKs(2, 0, "D")}}
MC_Bases == {[notes |-> N, extras |-> X, dur |-> 0] : N \in NoteSets(Cands, IF Thorough THEN 3 ELSE 2) \ {{}}, X \in ExtraSets}
=============================================================================
