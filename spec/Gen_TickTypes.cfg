CONSTANT MaxLen <- MC_MaxLen
CONSTANT Defect <- NoDefect
INIT GenInit
NEXT GenNext
