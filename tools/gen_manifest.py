#!/usr/bin/env python3
"""Writes MANIFEST.json from the table below (single place to edit)."""
import json
from pathlib import Path

V = Path(__file__).resolve().parent.parent
CLAIMED = {
    # id: (engine, technique, level text, level note, design ref)
    "C20": ("Theory", "TLC model check of Theory.tla (key transposition system, 15 keys x 51 intervals) + TLC trace "
            "validation of the complete function graphs dumped from the real code",
            "Exhaustive: the domains are finite (15 keys x integer intervals mod 12 with representatives -25..25 of both "
            "signs, 128x128 pitch pairs). TLC checks additivity/definedness/scale laws on the reference transition "
            "system and then evaluates the same laws on every entry of the real tables and on every 2-step "
            "transposition path replayed on the real code.",
            "Trusts TLC, the JSON bridge, and that Key/CircleOfFifths are pure functions of their arguments.", "6 (C20)"),
    "C18": ("SimpleOps", "TLC model check of SimpleOps.tla (score x operation histories) + replay of its behaviours on real "
            "Sequence objects + TLC trace validation of every step",
            "TLC explores every history of <=2 operations (22 argument choices) from every generated score (<=2 notes, "
            "signature/control extras, trailing rests) and checks that the reference design meets the acceptor clauses; "
            "all single-operation behaviours and seeded samples of longer ones are replayed on the real code from both "
            "construction routes, both views are read on deep copies and TLC evaluates every clause of the property "
            "(exact post-state) on each step.",
            "Bounded scope (small scores, listed arguments); trusts TLC, the JSON bridge and the projection in harness/project.py.", "6 (C18)"),
    "C04": ("SeqViews", "TLC model check of the two-copy coherence protocol SeqViews.tla + walk of its labelled state graph on "
            "real Sequence objects + TLC trace validation of every step (history-independence oracle)",
            "TLC checks Coherent/Readable/Visible on every reachable state of the protocol (every public operation from every "
            "freshness state, fine-grained generator steps, versions <= 6) and shows the invariants bite with the as-built "
            "defect switch. The labelled graph TLC writes is walked exhaustively to depth 2 (thorough 3) and randomly "
            "beyond on real objects; after each step both views are read on deep copies and TLC takes the specification's "
            "action, binds the observed content and evaluates readable / views-agree / effect-visible / duration-queries-agree. "
            "Objects the library hands out itself (loader, bar splitter, Bar / Composition, detokenise, split, copy) are "
            "checked for agreeing views, and every outermost public Sequence call logged while the repository's own tests run "
            "(quick: four fast files, thorough: the whole suite) is validated against the same protocol by Trace_SeqViewsLog.",
            "Content is abstracted to a value in the model; concrete arguments per operation are fixed in the harness; "
            "histories that interleave a suspended generator with other calls are outside 'legal' (documented by the library); "
            "in-turn edits include time edits that move a non-note event past its neighbours.", "4 (C04)"),
    "C14": ("Transpose", "TLC model check of Transpose.tla (message-at-a-time shift/wrap/key system) + execution of its initial "
            "states on real Sequence and Bar objects + TLC trace validation",
            "TLC checks range, pitch-class image, flag and inverse laws on the reference system for every piece (<=2 notes at "
            "and near both range limits, 4 key-signature sets) x 19 intervals; the same cases plus seeded random ones "
            "(intervals -130..130) run on the real code as Sequence and as Bar, and TLC evaluates each clause of the property "
            "on the observed pre/post views, result flag, transposed-back copy and bar key.",
            "Bounded scope; keys are compared up to enharmonic spelling via Theory's tonic table; when notes are wrapped the "
            "post-processing (normalise, note lengths) is judged only by the clauses the property states.", "6 (C14)"),
    "C07": ("Normalise", "TLC model check of Normalise.tla (message-at-a-time open-table / signature / wait-buffer system, "
            "all inputs up to the bound) + the same inputs and seeded random longer ones run through the real normalise + "
            "TLC trace validation of (input, output, output normalised again)",
            "TLC explores the reference system on every message list over a 12-letter alphabet (2 channels, pitch 1 = a "
            "channel number, 2 signatures, 2 waits) up to length 4 (thorough 5), checking clock and open-table invariants "
            "at every message and the acceptor at termination, and shows the invariants bite with two as-built defect "
            "switches. All those inputs (ill-formed ones included) plus random lists up to length 9/14 over a 44-letter "
            "alphabet go through the real code; TLC evaluates alternation, no repeated signature, duration, sounding-set "
            "preservation for paired inputs, signatures in force and idempotence on each observation.",
            "Bounded input length; sounding sets use nesting-count semantics.", "6 (C07)"),
    "C05": ("Quantise", "TLC model check of Quantise.tla (message-at-a-time open/previous-note tables, all tie-breakings) + "
            "its initial states and seeded random inputs run through the real quantise + TLC trace validation",
            "TLC explores the reference system (per-message QOn/QOff/QOther, Sweep, Sort; ties between equally near grid "
            "positions left nondeterministic so every tie-breaking rule is covered) on every well-formed input of <=2 notes "
            "over 2 channels x 2 pitches x 6 step lists (about 1e6 states) and checks the acceptor at termination; a defect "
            "switch shows the invariant bites. Those inputs and random ones (<=12 notes, 3 channels, 11 step lists) go "
            "through the real code; TLC evaluates grid, displacement (injective matching), pairing, overlap, non-note "
            "retention and the survival clause on each observation.",
            "Bounded scope; the displacement clause is decided by an earliest-feasible greedy matching per event class.", "6 (C05)"),
    "C06": ("NoteLengths", "TLC model check of NoteLengths.tla (per-note requantise/remove system, ties open) + its initial "
            "states and seeded random inputs run through the real quantise_note_lengths + TLC trace validation",
            "TLC checks on every generated input x 7 value lists x extension on/off that the reference design meets the "
            "acceptor (allowed duration, onset/pitch/channel/velocity fixed, fits before the next note of the same channel "
            "and pitch, closest fit, removed iff nothing fits, non-note events untouched) and never lets a kept note collide "
            "with a later one; the same triples and random inputs of up to 12 notes go through the real code and TLC "
            "evaluates every clause on the observed views.",
            "Bounded scope; notes are matched by (channel, pitch, onset), unique for well-formed input.", "6 (C06)"),
    "C08": ("Split", "TLC model check of Split.tla (capacity countdown / open table / boundary queue system) + its initial "
            "states and seeded random sources run through the real split + TLC trace validation",
            "TLC explores the reference system message by message on every generated source (<=2 notes incl. same pitch on "
            "two channels, notes crossing several boundaries, signatures on boundaries and on the final tick, trailing "
            "rests) x 9 capacity lists, checks countdown and open-table invariants at every step and the acceptor at "
            "termination; two as-built defect switches show the invariants bite. The same cases and random larger ones "
            "go through the real code; TLC evaluates piece count, exact capacities, duration sum, closed pieces, "
            "conservation of the sounding set, re-strike velocity, non-note events at their ticks and source unchanged "
            "(both views).",
            "Bounded scope; an event on a boundary is required in the later piece (as the reference system defines).", "6 (C08)"),
    "C09": ("Bars", "TLC model check of the bar-grid loop of Bars.tla + generated multi-track inputs run through the real "
            "sequences_split_bars + TLC trace validation against the expected grid",
            "TLC checks that the per-bar loop (signatures picked up at bar starts, advance by the bar length) produces a "
            "contiguous grid that covers the longest track with less than a bar to spare and agrees with the recursive "
            "definition the acceptor uses, for 8 boundary-aligned signature/key plans x 13 durations. Inputs formed from "
            "those plans x 516 track scores (1-3 tracks, unequal lengths, empty tracks, notes across bar lines, any meta "
            "index, both re-quantisation settings) go through the real code; TLC evaluates equal counts, bar lengths, "
            "signature and key per bar, coverage, sounding-set conservation (exact / subset with uncut allowed-length "
            "notes intact), closed bars and inputs unchanged.",
            "Signature changes on bar lines (the property's precondition) are re-checked by the validator; with "
            "re-quantisation on, only notes with default note values that cross no bar line are required intact.", "6 (C09/C10)"),
    "C10": ("Bars", "generated constructor cases (written by TLC from Bars.tla) run through the real Bar constructor and "
            "copy + TLC trace validation of the C10 acceptor; the grid loop model is checked alongside",
            "Every combination of 9 signatures x 20 note sets x 8 signature-event plans x 7 durations relative to the "
            "capacity (10,080 cases) plus seeded random ones is constructed; TLC requires either a BarException or "
            "exact length in both views with exactly one leading matching signature, rejection of over-long, conflicting "
            "and second signatures, and an equal copy.",
            "Signatures whose capacity is not an integer number of ticks are outside the generated space; the identical "
            "repeated signature is a recorded open finding.", "6 (C09/C10)"),
    "C15": ("Merge", "TLC model check of Merge.tla (merge-one-more-sequence system, all merge orders, confluence) + families "
            "of its scores merged by the real code in every order + TLC trace validation",
            "TLC explores every merge order of every family (singletons and pairs, thorough also triples) of the generated "
            "scores and checks that the fused piano roll does not depend on the order, equals the fusion of the union, has "
            "no overlaps and the maximum duration. Those families dressed with 8 signature plans and seeded random ones "
            "are merged by the real code in all permutations; TLC evaluates sounding set = union, well-formedness, "
            "fusion of overlapping (not abutting) notes, kept signature streams, duration = max, views agree and order "
            "independence of (pitch, onset, duration).",
            "Different signatures of one kind on the same tick are outside the property and filtered by the validator.", "6 (C15)"),
    "C17": ("Equals", "TLC model check of Equals.tla (single-attribute perturbation system, property table over all 16 flag sets) "
            "+ every behaviour built on the real code through three routes + TLC trace validation of equals under all flags",
            "TLC enumerates every legal single-attribute perturbation of 475 bases and checks the property's table "
            "(relaxed by exactly its own flag, never both must-equal and must-differ). Each (base, perturbed) pair is built "
            "through absolute, relative and re-ordered insertion; equals is evaluated in both directions under all 16 flag "
            "combinations, plus reflexivity, copy and ==; TLC decides from the two observed contents whether the pair must "
            "compare equal or must differ and checks the results.",
            "Pairs for which the property prescribes nothing (non-uniform channel relabelling under ignore_channel) are not judged.", "6 (C17)"),
    "C12": ("MidiCodec", "TLC model check of the writer/reader system of MidiCodec.tla (delta-time buffer, exact-position rounding) + "
            "pieces saved and loaded by the real code + TLC trace validation",
            "TLC checks on every piece x 8 resolutions that the sum of written deltas equals the source tick of every event "
            "(messages that write nothing between waits included), that every placed event is a nearest tick of its exact "
            "position, and identity at the library resolution. The pieces (alone and in families) and seeded random lists of "
            "1-3 sequences (all 15 keys, velocities 1..127, signatures at distinct arbitrary ticks, leading rests, program and "
            "control changes) are saved and loaded by the real code; TLC requires one sequence per saved one, identical "
            "notes, signatures in force at every signature tick equal to the saved ones (4/4 default) and none off the meta "
            "sequence.",
            "mido is trusted to write and read files; a saved sequence may hold two channels (a pitch released on one and "
            "struck on the other at the same tick included) but no pitch sounds on two channels at once; a fifth of the "
            "random sequences are two-channel, every third case re-uses the path of an earlier save.", "6 (C12/C13)"),
    "C13": ("MidiCodec", "same writer/reader model + files written directly with mido at 13 resolutions loaded by the real code "
            "under random routing + TLC trace validation against the file as parsed by mido",
            "For each loaded note and signature event TLC requires a file event of its class whose exact position "
            "fileTick*24/res it is nearest to (positions are cumulative file ticks, so accumulated error would show), the "
            "sounding set of every group to be the union of its tracks' notes with both ends rounded (checked when no event "
            "lies exactly half way, where the rounding direction is free), signatures of all considered tracks in force on "
            "the target sequence and nowhere else, the 4/4 default, and well-formed output. Files include sub-resolution "
            "notes, runs of 1-tick deltas, note-on velocity 0 as note-off, tracks outside every group, keys named by their "
            "relative minor.",
            "mido is trusted; ties at exactly half a tick are judged by the nearest-tick clause only.", "6 (C12/C13)"),
    "C01": ("Tokeniser", "TLC model check of TokeniserSys.tla (tokenise / detokenise / annotate automata in lock-step, round trip, "
            "duration) + its initial states and seeded random pieces over the configuration lattice run through the real "
            "tokenise-encode-decode-detokenise + TLC trace validation",
            "TLC explores the three automata event by event and token by token on every generated piece x configuration and "
            "checks TokeniseSucceeds, VocabClosed, LockStep, RoundTrip and DurationRoundedUp; the as-built closing rule is a "
            "named defect switch that TLC refutes. The same pieces and random ones (1-4 tracks, 1-6 bars, signature "
            "changes, crossing notes, all 16 flag sets, 7 bin counts, pitch ranges, value/step sets) go through the real "
            "code; TLC evaluates success, vocabulary membership, codec identity, notes with binned velocity per track, bar "
            "grid, bar marks and duration; the real token stream is also compared with the reference automaton's.",
            "Bounded model scope (<=2 notes, 2 tracks, ppqn 24); valid pieces keep every tokenised event on the even-tick grid on which greedy rest decomposition over the step sizes is total; token strings are parsed only through TokenisationPrefixes for the reference-stream diagnostic.", "5 (C01)"),
    "C02": ("Tokeniser", "TLC model check of VocabClosed on TokeniserSys.tla for all 16 flag sets + complete dictionaries of a "
            "configuration lattice and one witness piece per abstract vocabulary token + TLC trace validation",
            "Per configuration the whole dictionary is dumped from the real object and TLC checks ids = 0..size-1, reported "
            "size, both round trips and acceptance by detokenise for every entry (finite, enumerated completely); for each "
            "abstract token of Vocab(cfg) written by TLC a witness piece forces its emission and the emitted strings must "
            "be keys, encode, and contain the wanted token.",
            "Bounded model scope (<=2 notes, 2 tracks, ppqn 24); valid pieces keep every tokenised event on the even-tick grid on which greedy rest decomposition over the step sizes is total; token strings are parsed only through TokenisationPrefixes for the reference-stream diagnostic.", "5 (C02)"),
    "C03": ("Tokeniser", "TLC model check of ChunkInvariance on TokeniserSys.tla (every partition of the bars into calls, carried "
            "state) + bars from the real bar splitter tokenised under every partition + TLC trace validation",
            "TLC explores every partition of every whole-bar piece (1-3 bars, signature changes, empty bars) with one carried "
            "state and checks that the concatenated stream detokenises like the single-call stream. The real code tokenises "
            "the bars produced by sequences_split_bars (both settings) group by group with one state_dict; TLC compares "
            "notes, bar marks, durations and signatures in force with the single call and with the bars themselves.",
            "Bounded model scope (<=2 notes, 2 tracks, ppqn 24); valid pieces keep every tokenised event on the even-tick grid on which greedy rest decomposition over the step sizes is total; token strings are parsed only through TokenisationPrefixes for the reference-stream diagnostic.", "5 (C03)"),
    "C19": ("Tokeniser", "TLC model check of LockStep over ALL token streams up to length 5/6 of a reduced vocabulary (product of "
            "the detokenise and annotate automata) + the same streams, random longer ones and tokenise output run through the "
            "real get_info + TLC trace validation against prefix-detokenisation placements",
            "TLC checks clock, in-bar clock and capacity equality of the two automata and onset/pitch agreement after every "
            "token for every stream (not only tokenise output: bar tokens in partly filled or overfull bars, signatures "
            "mid-bar, unfused running values). The real get_info (with and without imputation) is compared by TLC with the "
            "note placements obtained from detokenise on every prefix, the pitch and the circle-of-fifths position of "
            "Theory, and for tokenise output in-bar time and monotone times.",
            "Bounded model scope (<=2 notes, 2 tracks, ppqn 24); valid pieces keep every tokenised event on the even-tick grid on which greedy rest decomposition over the step sizes is total; token strings are parsed only through TokenisationPrefixes for the reference-stream diagnostic.", "5 (C19)"),
    "C16": ("Alias", "TLC model check of Alias.tla (heap of message cells, derivation and in-place / structural mutation; "
            "Independent, NoSharedCells) + derivation route x side x operation history executed on real objects + TLC trace "
            "validation",
            "TLC explores every history of <=6 steps over <=3 objects (reads, in-place and structural mutators on either view, "
            "copy and split derivations) and checks that every object shows its own content through both views; the as-built "
            "sharing switch is refuted. On the real code all 8 derivation routes x both sides x every history of 1-2 of 18 "
            "operations are executed; both views of every sequence of both sides are read on deep copies before and after, "
            "and TLC requires the untouched side unchanged in both views, views in agreement, and copies equal at derivation.",
            "merge and concatenate share messages with their arguments by design of the library and are outside C16.", "4 (C16)"),
    "C11": ("TickTypes", "TLC model check of TickTypes.tla (numeric-kind abstraction, integer-closed operations, defect switch) + "
            "every history of its 27 operations executed on integer-tick inputs + TLC trace validation of the observed kinds "
            "+ TLC validation of the public Sequence calls logged while the repository's own tests run",
            "The model states which operations are in scope and that each is integer-closed; TLC refutes the as-built "
            "true-division padding switch. All histories of length <=2 (thorough 3) and random longer ones run on six "
            "integer-tick input families; after every step the Python type of every time value in both views of every "
            "live sequence and the numeric fields of every emitted token are logged, and TLC takes the operation and "
            "requires the kinds to stay {int}, tokens in the vocabulary and views readable. Every outermost public call on a "
            "Sequence logged during the repository's tests is judged by Trace_TickLog when the object held only integer times "
            "before and the arguments were integers.",
            "Kinds are observed as Python type names (bool / numpy scalars would be reported under their own names).", "4 (C11)"),
}
PENDING = {}
props = [json.loads(l) for l in open(V / "properties.jsonl")]
checks, na = [], []
for p in props:
    i = p["id"]
    if i in CLAIMED:
        eng, tech, text, note, ref = CLAIMED[i]
        checks.append({
            "property_id": i,
            "quick_cmd": f"./check {i} --tier quick",
            "thorough_cmd": f"./check {i} --tier thorough",
            "evidence_file": f"/verif/evidence/{i}.json",
            "replay_cmd_template": f"./check {i} --replay {{path}}",
            "engine": eng,
            "level_claimed": {"category": "model_checking", "text": text, "design_ref": "DESIGN.md section " + ref},
            "level_note": note,
            "technique": tech,
        })
    else:
        na.append({"property_id": i, "reason": PENDING.get(i, "check not built yet in this round (planned in DESIGN.md; "
                                                                "the TLA+ technique applies, nothing is claimed until the check exists)")})
m = {
    "version": 1,
    "setup_cmd": "sh tools/setup.sh",
    "hooks": {"guard": "SCODA_VERIF", "enable": "no source hooks: observation is by run-time wrapping and deep-copy reads from the harness (SCODA_ROOT selects the tree, default /repo)",
              "baseline_off_cmd": "cd /repo && /venv/bin/python -m pytest -ra -q -p no:cacheprovider --timeout=900 --continue-on-collection-errors",
              "source_commits": [], "add_only": True},
    "engines": [],
    "checks": checks,
    "notes": "All checks: ./check <id> [--tier quick|thorough] [--seed N] [--replay FILE]; exit 2 = machinery failure.",
    "not_applicable": na,
}
engs = {}
for c in checks:
    engs.setdefault(c["engine"], []).append(c["property_id"])
m["engines"] = [{"name": e, "path": f"spec/{e}.tla", "serves_properties": ps,
                 "kind_free_text": "TLA+ module checked by TLC; MC_/Gen_/Trace_ companions; driver in harness/"} for e, ps in engs.items()]
(V / "MANIFEST.json").write_text(json.dumps(m, indent=1) + "\n")
print("claimed", len(checks), "not_applicable", len(na))
