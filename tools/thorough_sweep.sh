#!/bin/sh
# runs every thorough check once on the tree in /repo; one summary line per check (with wall time)
cd "$(dirname "$0")/.."
for id in ${@:-C20 C10 C09 C11 C16 C17 C15 C14 C18 C04 C07 C06 C05 C08 C12 C13 C02 C03 C19 C01}; do
  s=$(date +%s)
  timeout 7200 ./check $id --tier thorough > /tmp/thor.$$ 2>&1; rc=$?
  e=$(date +%s)
  echo "== $id rc=$rc wall=$((e-s))s"
  grep -E "^C[0-9]+:|VIOLATION|MACHINERY|Error" /tmp/thor.$$ | cut -c1-220 | tail -4
done
rm -f /tmp/thor.$$
