#!/usr/bin/env python3
"""Summarise out/<pid>_violations.ndjson by failed-clause signature with the smallest example of each."""
import collections
import json
import sys
pid = sys.argv[1]
c = collections.Counter()
ex = {}
def size(o):
    return len(json.dumps(o))
for l in open(f'/verif/out/{pid}_violations.ndjson'):
    d = json.loads(l)
    k = tuple(d['v']['fails'])
    c[k] += 1
    if k not in ex or size(d['o']) < size(ex[k]):
        ex[k] = d['o']
def short(ms):
    return [(m['ty'], m['t'], m['ch'], m['p']) + ((m['n'], m['d']) if m['ty'] == 'ts' else ()) for m in ms]
for k, v in c.most_common(int(sys.argv[2]) if len(sys.argv) > 2 else 12):
    o = ex[k]
    print(v, k)
    for f in ('steps', 'args', 'op', 'raised', 'caps', 'i'):
        if f in o:
            print('    ', f, o[f])
    for f in ('in', 'out', 'out2'):
        if f in o and isinstance(o[f], list) and o[f] and isinstance(o[f][0], dict):
            print('    ', f, short(o[f]))
