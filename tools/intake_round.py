#!/usr/bin/env python3
"""Takes the deliveries of one round of sub-agents (<dir>/out-Cxx/<letter>/{patch.diff,demo.py,meta.json}) into
/verif/seeded/Cxx-<letter>/ with a meta.json in the format of the earlier rounds.  usage: intake_round.py <dir> <round> [ids]"""
import json, os, shutil, sys, glob
src, rnd = sys.argv[1], int(sys.argv[2])
only = sys.argv[3:]
for d in sorted(glob.glob(f"{src}/out-C*/[A-Z]")):
    pid = os.path.basename(os.path.dirname(d))[4:]
    letter = os.path.basename(d)
    mid = f"{pid}-{letter}"
    if only and mid not in only and pid not in only:
        continue
    if not all(os.path.exists(f"{d}/{f}") for f in ("patch.diff", "demo.py", "meta.json")):
        print(mid, "incomplete"); continue
    dst = f"/verif/seeded/{mid}"
    if os.path.exists(dst):
        print(mid, "exists"); continue
    try:
        m = json.load(open(f"{d}/meta.json"))
    except Exception as e:
        print(mid, "bad meta", e); continue
    os.makedirs(dst)
    shutil.copy(f"{d}/patch.diff", dst); shutil.copy(f"{d}/demo.py", dst)
    meta = {"id": mid, "round": rnd, "property": pid, "summary": m.get("summary", ""), "needs": m.get("needs", ""),
            "files": m.get("files", []),
            "origin": "written by an independent sub-agent that saw only the property text, one-line summaries of the earlier changes "
                      "for the property (to avoid repeats) and its own scratch worktree of /repo",
            "confirmed": {"suite_with_change": m.get("suite", "?"), "how": "tools/eval_mutant.sh + suite run on a scratch worktree"}}
    json.dump(meta, open(f"{dst}/meta.json", "w"), indent=1)
    print(mid, "taken")
