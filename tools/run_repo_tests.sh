#!/bin/sh
# Runs the repository's pinned suite on a scratch worktree of the given commit (default HEAD) outside /repo and /verif.
# usage: run_repo_tests.sh [commit]   -> prints the pytest summary line; removes the worktree afterwards
C=${1:-HEAD}
D=$(mktemp -d /tmp/wt-test-XXXXXX)
git -C /repo worktree add --detach -f "$D" "$C" >/dev/null 2>&1 || { echo "worktree failed"; exit 2; }
( cd "$D" && SCODA_VERIF= /venv/bin/python -m pytest -ra -q -p no:cacheprovider --timeout=900 --continue-on-collection-errors 2>&1 | tail -15 )
git -C /repo worktree remove --force "$D"
rm -rf "$D"
