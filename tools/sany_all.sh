#!/bin/sh
# parses every module under spec/ (a name clash introduced in a shared module shows up here at once)
cd /verif/spec; rc=0
for f in Trace_*.tla MC_*.tla Gen_*.tla; do m=${f%.tla}; if tla-sany $m.tla 2>&1 | grep -q "Semantic errors\|Parse Error\|\*\*\* Errors"; then echo "SANY FAIL $m"; rc=1; fi; done
exit $rc
