#!/bin/sh
# Offline setup: nothing to build; verify the tools the checks need are present.
set -e
cd "$(dirname "$0")/.."
mkdir -p out evidence
java -version >/dev/null 2>&1
test -f /opt/veriftools/tla/tla2tools.jar
/venv/bin/python -c "import mido, numpy"
chmod +x check tools/*.sh tools/*.py 2>/dev/null || true
sh tools/sany_all.sh      # every specification module parses
echo setup ok
