#!/bin/sh
# usage: mutcheck.sh <patch.diff|commit:REV> <Cxx> [more ids...]
# Runs the given checks against a scratch worktree of /repo (outside /repo and /verif) with the patch applied
# (or at the given revision); removes the worktree afterwards. Evidence files are saved/restored.
P=$1; shift
D=$(mktemp -d /tmp/mut-XXXXXX)
case "$P" in
  commit:*) git -C /repo worktree add --detach -f "$D" "${P#commit:}" >/dev/null 2>&1 || exit 2 ;;
  *) git -C /repo worktree add --detach -f "$D" HEAD >/dev/null 2>&1 || exit 2
     git -C "$D" apply "$P" || { echo "patch does not apply"; git -C /repo worktree remove --force "$D"; exit 2; } ;;
esac
cd /verif
for id in "$@"; do

  SCODA_ROOT=$D VERIF_EVIDENCE_DIR=$D/.verif-evidence ./check $id --tier quick | grep -E "VIOLATION|KNOWN|^C[0-9]+:|MACHINERY" | cut -c1-220 | head -8
  echo "exit=$?"

done
git -C /repo worktree remove --force "$D"; rm -rf "$D"
