#!/bin/sh
# usage: seed_sweep.sh <seed> [<seed> ...]   runs every quick check with each seed on the tree in /repo; prints one line per run
cd "$(dirname "$0")/.."
for sd in "$@"; do
  for id in C20 C18 C04 C14 C07 C05 C06 C08 C09 C10 C15 C17 C12 C13 C02 C16 C11 C01 C03 C19; do
    VERIF_SEED=$sd timeout 3000 ./check $id 2>&1 | grep -E "^C[0-9]+:|VIOLATION|MACHINERY" | cut -c1-200 | tail -2
  done
done
