#!/bin/sh
# usage: eval_mutant.sh <mutant-dir with patch.diff demo.py meta.json> <Cxx> [more check ids]
# Confirms a seeded change in a scratch worktree (outside /repo and /verif): patch applies, demo passes without and
# fails with it, the repository's suite passes with it (skip with NOTESTS=1); then runs the given quick checks on it.
M=$1; shift
D=$(mktemp -d /tmp/mut-XXXXXX)
git -C /repo worktree add --detach -f "$D" HEAD >/dev/null 2>&1 || exit 2
echo "== $M"
( cd /tmp && PYTHONPATH=/repo /venv/bin/python "$M/demo.py" >/dev/null 2>&1; echo "demo on unmodified: exit=$?" )
if ! git -C "$D" apply "$M/patch.diff"; then echo "PATCH DOES NOT APPLY"; git -C /repo worktree remove --force "$D"; exit 2; fi
( cd /tmp && PYTHONPATH=$D /venv/bin/python "$M/demo.py" >/dev/null 2>&1; echo "demo with mutant:   exit=$?" )
if [ -z "$NOTESTS" ]; then
  ( cd "$D" && /venv/bin/python -m pytest -q -p no:cacheprovider --timeout=900 2>&1 | tail -1 )
fi
cd /verif
for id in "$@"; do
  SCODA_ROOT=$D VERIF_EVIDENCE_DIR=$D/.verif-evidence ./check $id --tier ${TIER:-quick} > /tmp/mutout.$$.$id 2>&1; rc=$?
  grep -E "^C[0-9]+:|MACHINERY" /tmp/mutout.$$.$id | cut -c1-200
  grep -E "VIOLATION" /tmp/mutout.$$.$id | sed 's/replay=[^ ]* //' | sort | uniq -c | sort -rn | head -4
  echo "check $id exit=$rc"
  rm -f /tmp/mutout.$$.$id
done
git -C /repo worktree remove --force "$D"; rm -rf "$D"
