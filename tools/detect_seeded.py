#!/usr/bin/env python3
"""Runs, for every seeded change under /verif/seeded/Cxx-?, the quick check of its property (and extra ids given in
meta.also) against a scratch worktree with the patch applied; records the outcome in meta.json (detected_by) and prints a
table row per change. Properties run in parallel, the changes of one property one after the other.
usage: detect_seeded.py [-j N] [ids or prefixes ...]"""
import concurrent.futures as cf
import json, os, re, subprocess, sys, glob

def run_one(d):
    meta = json.load(open(d + "/meta.json"))
    pid = meta["property"]
    ids = [pid] + [x for x in meta.get("also", []) if x != pid]
    out = {}
    for cid in ids:
        p = subprocess.run(["sh", "/verif/tools/eval_mutant.sh", d, cid], env=dict(os.environ, NOTESTS="1"), capture_output=True, text=True)
        m = re.search(r"violations=(\d+)", p.stdout)
        e = re.search(rf"check {cid} exit=(\d+)", p.stdout)
        demo = re.findall(r"demo (?:on unmodified|with mutant): +exit=(\d+)", p.stdout)
        out[cid] = {"tier": "quick", "seed": 0, "violations": int(m.group(1)) if m else -1, "exit": int(e.group(1)) if e else -1}
        if "PATCH DOES NOT APPLY" in p.stdout:
            out[cid]["exit"] = -2
        meta["confirmed"]["demo_on_unchanged_tree"] = f"exit {demo[0]}" if demo else "?"
        meta["confirmed"]["demo_with_change"] = f"exit {demo[1]}" if len(demo) > 1 else "?"
    meta["detected_by"] = out
    json.dump(meta, open(d + "/meta.json", "w"), indent=1)
    return meta["id"], out

def main():
    args = sys.argv[1:]
    j = 4
    if args[:1] == ["-j"]:
        j = int(args[1]); args = args[2:]
    dirs = sorted(d for d in glob.glob("/verif/seeded/C*") if not args or any(os.path.basename(d).startswith(a) for a in args))
    byprop = {}
    for d in dirs:
        byprop.setdefault(os.path.basename(d)[:3], []).append(d)
    def prop(ds):
        return [run_one(d) for d in ds]
    with cf.ThreadPoolExecutor(max_workers=j) as ex:
        for res in ex.map(prop, byprop.values()):
            for mid, out in res:
                print(mid, " ".join(f"{k}:exit={v['exit']},viol={v['violations']}" for k, v in out.items()), flush=True)

if __name__ == "__main__":
    main()
