#!/usr/bin/env python3
"""Runs the repository's suite on a scratch worktree (outside /repo and /verif, removed afterwards) with each given seeded
change applied and records the summary line in its meta.json (confirmed.suite_with_change_own_run).
usage: suite_seeded.py [-j N] ids..."""
import concurrent.futures as cf
import json, subprocess, sys, tempfile, shutil

def one(mid):
    d = f"/verif/seeded/{mid}"
    wt = tempfile.mkdtemp(prefix="suite-", dir="/tmp")
    try:
        subprocess.run(["git", "-C", "/repo", "worktree", "add", "--detach", "-f", wt, "HEAD"], capture_output=True)
        a = subprocess.run(["git", "-C", wt, "apply", f"{d}/patch.diff"], capture_output=True, text=True)
        if a.returncode:
            res = "PATCH DOES NOT APPLY: " + a.stderr.strip()[:200]
        else:
            p = subprocess.run(["/venv/bin/python", "-m", "pytest", "-q", "-p", "no:cacheprovider", "--timeout=900"], cwd=wt,
                               capture_output=True, text=True)
            res = p.stdout.strip().splitlines()[-1] if p.stdout.strip() else "no output"
    finally:
        subprocess.run(["git", "-C", "/repo", "worktree", "remove", "--force", wt], capture_output=True)
        shutil.rmtree(wt, ignore_errors=True)
    m = json.load(open(f"{d}/meta.json"))
    m["confirmed"]["suite_with_change"] = res
    json.dump(m, open(f"{d}/meta.json", "w"), indent=1)
    return mid, res

args = sys.argv[1:]
j = 4
if args[:1] == ["-j"]:
    j = int(args[1]); args = args[2:]
with cf.ThreadPoolExecutor(max_workers=j) as ex:
    for mid, res in ex.map(one, args):
        print(mid, res, flush=True)
